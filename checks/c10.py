"""C10 — validation accepts exactly the well-defined models."""
import random
import z3

from sx import core as S, env as E, pl, plh, families as F, wd

PROPERTY = "C10"
REGIONS = ["asked-again-after-the-object-changed", "generated-id-coincidence",  "leaf-leaf-same-id", "leaf-compound-same-id", "compound-compound-same-id", "self-reference", "duplicate-child",
           "identical-sharing", "plain-tree", "accepted", "rejected"]
BOUNDS = ("adversarial skeletons with <=3 occurrences of a reused id (leaf/leaf, leaf/compound, compound/compound), self references, duplicate children, "
          "diamond sharing, plain trees; boxes of the reused leaves and thresholds/signs of the reused compounds symbolic (boxes in [-32768,32767], "
          "|v|<=64); errors() executed under an INJECTIVE hash model (M5 decided tokens); the real hash arithmetic of Bounds/variable is executed "
          "separately with the explicit CPython model hash(i) = -2 if i == -1 else i for |i| < 2^61-1")
OUTSIDE = "CPython str/tuple hash collisions; more than 3 occurrences; larger thresholds"
FAMILY = "curated adversarial skeletons + curated plain trees"
ASSUMPTIONS = ["M4 hash shadow (hash values as z3 terms) for the Q-hash part; CPython tuple hashing modelled as injective on component hashes", "M5 decided tokens (hash injective on integer values) for the Q-sound / Q-complete parts",
               "well-definedness predicate written in the harness (sx/wd.py): acyclic ids, no duplicate child, one definition per id"]


def functions(ns):
    A = ns.pg.AtLeast
    return [A.errors, A.flatten, A._dependencies, A.__hash__, A.__eq__, ns.puan.Bounds.__hash__, ns.puan.variable.__hash__, ns.puan.variable.__eq__]


def X(occ, id="x"):
    return {"t": "var", "id": id, "occ": occ, "lo": "$lo_%s%d" % (id, occ), "hi": "$hi_%s%d" % (id, occ)}


def K(occ, *ch, id="K", t="AtLeast"):
    return {"t": "AtLeast", "id": id, "value": "$v_%s%d" % (id, occ), "sign": "$s_%s%d" % (id, occ), "ch": list(ch)}


def skeletons(tier="thorough"):
    a, b, c, d = F.a, F.b, F.c, F.d
    N = F.N
    L = []
    L.append(("leaf-leaf-same-id", N("All", N("Any", X(1), a(), id="B"), N("Any", X(2), b(), id="C"), id="A")))
    L.append(("leaf-leaf-same-id", N("All", N("Any", X(1), a(), id="B"), N("Any", {"t": "var", "id": "x", "occ": 2, "lo": 0, "hi": 3}, b(), id="C"), N("Any", {"t": "var", "id": "x", "occ": 3, "lo": 1, "hi": 2}, c(), id="D"), id="A")))
    L.append(("leaf-leaf-same-id", F.AL(1, N("Any", X(1), a(), id="B"), X(2), id="A", sign=1)))
    L.append(("leaf-compound-same-id", N("All", N("Any", a(), b(), id="x"), N("Any", F.V("x"), c(), id="y"), id="A")))
    L.append(("leaf-compound-same-id", N("All", N("Any", a(), b(), id="x"), N("Any", X(1), c(), id="y"), id="A")))
    L.append(("compound-compound-same-id", N("All", N("Any", K(1, a(), b()), c(), id="B"), N("Any", K(2, a(), b()), d(), id="C"), id="A")))
    L.append(("compound-compound-same-id", N("All", N("Any", N("Any", a(), b(), id="K"), c(), id="B"), N("Any", N("Any", a(), c(), id="K"), d(), id="C"), id="A")))
    L.append(("compound-compound-same-id", N("All", N("Any", N("Any", a(), b(), id="K"), c(), id="B"), N("Any", N("All", a(), b(), id="K"), d(), id="C"), id="A")))
    L.append(("compound-compound-same-id", N("All", N("Any", N("Any", a(), b(), id="K"), c(), id="B"), N("Any", N("Any", a(), b(), id="K", vb=[1, 1]), d(), id="C"), id="A")))
    # same id, same value/children, sign free, children with bounds symmetric around zero (equation bounds cannot tell the signs apart)
    y1 = lambda: F.V("y", -1, 1)    # noqa
    L.append(("compound-compound-same-id", N("All", N("Any", K(1, y1()), c(), id="B"), N("Any", K(2, y1()), d(), id="C"), id="A")))
    L.append(("compound-compound-same-id", N("All", N("Any", K(1, F.V("p", 0, 1), F.V("q", -1, 0)), c(), id="B"), N("Any", K(2, F.V("p", 0, 1), F.V("q", -1, 0)), d(), id="C"), id="A")))
    if tier == "thorough":
        L.append(("compound-compound-same-id", N("All", N("Any", K(1, F.V("y", -2, 2), F.V("z", -3, 3)), c(), id="B"), N("Any", K(2, F.V("y", -2, 2), F.V("z", -3, 3)), d(), id="C"), id="A")))
    L.append(("self-reference", N("Any", a(), N("Any", b(), F.V("A"), id="B"), id="A")))
    L.append(("self-reference", N("Any", a(), N("Any", b(), N("All", c(), F.V("B"), id="C"), id="B"), id="A")))
    # cycles that no tree path shows: siblings referring to each other, a ring among siblings, a reference that precedes the definition it closes a ring with
    L.append(("self-reference", N("All", N("All", F.V("C"), a(), id="B"), N("All", F.V("B"), b(), id="C"), id="A")))
    L.append(("self-reference", N("All", N("Any", F.V("C"), a(), id="B"), N("Any", F.V("D"), b(), id="C"), N("Any", F.V("B"), c(), id="D"), id="A")))
    L.append(("self-reference", N("All", N("Any", F.V("Q"), a(), id="P"), N("Any", F.V("A"), b(), id="Q"), id="A")))
    L.append(("duplicate-child", N("Any", a(), N("All", b(), {"t": "var", "id": "b", "occ": 2, "lo": 0, "hi": 1}, id="B"), id="A")))
    L.append(("duplicate-child", N("All", N("Any", a(), b(), id="B"), N("Any", a(), b(), id="B"), id="A")))
    L.append(("identical-sharing", N("Any", N("All", N("Any", a(), b(), id="S"), c(), id="B"), N("All", N("Any", a(), b(), id="S"), d(), id="C"), id="A")))
    L.append(("identical-sharing", N("All", N("Xor", a(), b()), N("Imply", N("Any", a(), b()), c()), id="A")))
    L.append(("identical-sharing", N("All", N("Any", a(), b()), N("Imply", N("Any", a(), b()), c(), id="R"), id="A")))
    # generated-id coincidences: different sub-propositions whose auto-generated ids collide (ids are a digest of the concatenated child ids)
    L.append(("generated-id-coincidence", N("All", N("Any", N("Any", F.V("ab"), F.V("c")), d(), id="B"), N("Any", N("Any", F.V("a"), F.V("bc")), F.V("e"), id="C"), id="A")))
    L.append(("generated-id-coincidence", N("All", N("Any", F.AL(1, F.V("x1"), sign=None), d(), id="B"), N("Any", F.AL(11, F.V("x"), sign=None), F.V("e"), id="C"), id="A")))
    L.append(("generated-id-coincidence", N("All", N("Any", N("All", F.V("ab"), F.V("c")), d(), id="B"), N("Any", N("All", F.V("a"), F.V("bc")), F.V("e"), id="C"), id="A")))
    for sk in F.curated()[:14]:
        L.append(("plain-tree", sk))          # concrete parameters: every hashed symbolic integer forks against all earlier ones (M5 decided)
    return L


def _quickify(sk):
    """second and later symbolic occurrences of a reused leaf get the concrete box (1,2): every symbolic hashed integer multiplies the paths"""
    import copy
    s = copy.deepcopy(sk)

    def go(n):
        if n["t"] == "var" and n.get("occ", 0) >= 2 and isinstance(n.get("lo"), str):
            n["lo"], n["hi"] = 1, 2
        for c in n.get("ch", []):
            go(c)
    go(s)
    return s


def instantiations(tier, seed):
    out = [{"part": "hash", "what": "bounds"}, {"part": "hash", "what": "variable"}, {"part": "hash", "what": "atleast"}]
    for k, (cls, sk) in enumerate(skeletons(tier)):
        if tier == "quick":
            sk = _quickify(sk)
        names = F.ALT_NAMES[(k + seed) % len(F.ALT_NAMES)] if cls == "plain-tree" else {}
        out.append({"part": "errors", "cls": cls, "model": F.rename(sk, names)})
    # errors() asked again after the object has been validated/flattened once and then been changed through the public API (assume() with a
    # dictionary naming sub-proposition ids rebinds variables inside the model it is called on: the open C09 finding): the second answer must
    # describe the object as it is NOW
    N, a, b, c, d = F.N, F.a, F.b, F.c, F.d
    for sk, dct in [(N("Any", N("All", N("Any", a(), b(), id="S"), c(), id="B"), N("All", N("Any", a(), b(), id="S"), d(), id="C"), id="A"), ["B", "S"]),
                    (N("All", N("All", N("Any", a(), b(), id="S"), F.V("p"), id="P"), N("Any", N("Any", a(), b(), id="S"), F.V("q"), id="Q"), id="A"), ["P", "S"]),
                    (N("All", N("Any", N("All", a(), b(), id="S"), c(), id="B"), N("Any", N("All", a(), b(), id="S"), d(), id="C"), id="A"), ["S", "C"])]:
        out.append({"part": "requery", "cls": "identical-sharing", "model": sk, "assume_ids": dct})
    out.append({"kind": "mutant", "mutant": "accept_all", "part": "errors", "cls": "leaf-leaf-same-id", "model": skeletons()[0][1]})
    out.append({"kind": "mutant", "mutant": "reject_all", "part": "errors", "cls": "plain-tree", "model": skeletons()[-1][1]})
    return out


def sym_env10(ctx, spec):
    env = {}
    for p in sorted(pl.params(spec)):
        kind = p.split("_")[0]
        if kind == "v":
            env[p] = ctx.int(p, -64, 64)
        elif kind == "s":
            s = ctx.int(p, -1, 1)
            ctx.assume(s.e != 0)
            env[p] = s
        else:
            env[p] = ctx.int(p, plh.LO16, plh.HI16)
    for p in env:
        if p.startswith("lo_"):
            ctx.assume(env[p].e <= env["hi_" + p[3:]].e)
    return env


def _leaf_compound_clash(spec):
    """known class: some id names both an atomic and a compound proposition and the id graph is acyclic"""
    occ = wd.occurrences(spec)
    leaf_ids = {o["id"] for o in occ if o["kind"] == "leaf"}
    cmp_ids = {o["id"] for o in occ if o["kind"] == "cmp" and o["id"] is not None}
    return bool(leaf_ids & cmp_ids) and not wd.cyclic(spec) and not wd.graph_cyclic(spec)


def _requery(ns, spec, run):
    model_spec = spec["model"]
    isleaf = lambda n: issubclass(n.__class__, ns.puan.variable)    # noqa

    def fn(ctx):
        ctx.preregister({0, 1})
        vals = {i: ctx.int("o_" + i, 0, 1) for i in spec["assume_ids"]}
        err = e1 = e2 = wd2 = None
        S.HASH_MODE = "decided"
        try:
            m = pl.build(ns, model_spec, {})
            with E.inj_hash_shadow():
                e1 = list(m.errors())
                m.flatten()
                m.variables
                try:
                    m.assume(dict(vals))
                except Exception:   # noqa
                    pass
                e2 = list(m.errors())
            wd2 = wd.welldefined_objects(isleaf, m, lambda x: S.term(x), lambda a, b: a == b, lambda xs: z3.And(xs), z3.BoolVal(True), z3.BoolVal(False))
        except Exception as ex:   # noqa
            err = "%s: %s" % (type(ex).__name__, ex)
        finally:
            S.HASH_MODE = "structural"
        return dict(vals=vals, e1=e1, e2=e2, wd2=wd2, err=err)

    def on_path(ctx, d):
        run.path(ctx)
        run.region("asked-again-after-the-object-changed")

        def conc(m):
            return {"env": {}, "assume": {k: S.model_int(m, v) for k, v in d["vals"].items()}}
        if d["err"] is not None:
            run.obligation(ctx, "raises", True, conc, extra=d["err"])
            return
        if d["e1"] != []:
            run.obligation(ctx, "well-defined-but-rejected", True, conc, extra=str(d["e1"]))
            return
        if d["e2"] == []:
            run.region("accepted")
            run.obligation(ctx, "accepted-but-not-well-defined (second query)", z3.Not(d["wd2"]), conc)
        else:
            run.region("rejected")
            run.obligation(ctx, "well-defined-but-rejected (second query)", d["wd2"], conc, extra=str(d["e2"]))
        run.sample({"class": "requery", "model": pl.show(model_spec), "errors_after": [str(x) for x in d["e2"]]})
    st = S.explore(fn, on_path, max_paths=2000, wall=600)
    return run.result(st)


def run_inst(spec, run):
    ns = E.load_repo()
    mu = spec.get("mutant")
    if spec["part"] == "hash":
        return _hash(ns, spec, run)
    if spec["part"] == "requery":
        return _requery(ns, spec, run)
    model_spec = spec["model"]

    nums = {0, 1}
    for o in wd.occurrences(model_spec):
        for k in ("lo", "hi", "value", "sign"):
            if isinstance(o.get(k), int):
                nums.add(o[k])
        for v in (o.get("vb") or []):
            nums.add(v)

    def fn(ctx):
        env = sym_env10(ctx, model_spec)
        ctx.preregister(nums)
        err = e = None
        S.HASH_MODE = "decided"
        wdo = None
        try:
            m = pl.build(ns, model_spec, env)
            wdo = wd.welldefined_objects(lambda n: issubclass(n.__class__, ns.puan.variable), pl.build(ns, model_spec, env),
                                         lambda x: S.term(x), lambda a, b: a == b, lambda xs: z3.And(xs), z3.BoolVal(True), z3.BoolVal(False))
            with E.inj_hash_shadow():
                e = list(m.errors())
        except RecursionError:
            err = "RecursionError"
        except Exception as ex:   # noqa
            err = "%s: %s" % (type(ex).__name__, ex)
        finally:
            S.HASH_MODE = "structural"
        return dict(env=env, e=e, err=err, wdo=wdo)

    def on_path(ctx, d):
        run.path(ctx)
        env = d["env"]

        def conc(m):
            return {"env": plh.conc_env(m, env)}
        run.region(spec["cls"])
        WD = wd.welldefined(model_spec, lambda x: S.term(pl.P(env, x)), lambda a, b: a == b, lambda xs: z3.And(xs), z3.BoolVal(True), z3.BoolVal(False))
        if d["wdo"] is not None:
            # the object-level predicate sees the real (possibly coinciding) generated ids; both must hold for "well-defined"
            WD = z3.And(WD, d["wdo"])
        if d["err"] is not None:
            # a model the constructor or errors() cannot even process: only a violation if it is well-defined
            run.obligation(ctx, "raises-on-well-defined-model", WD, conc, extra=d["err"])
            return
        accepted = (d["e"] == [])
        if mu == "accept_all":
            accepted = True
        if mu == "reject_all":
            accepted = False
        run.region("accepted" if accepted else "rejected")
        kn = {"leaf-compound-same-id": z3.BoolVal(_leaf_compound_clash(model_spec))}
        if accepted:
            run.obligation(ctx, "accepted-but-not-well-defined", z3.Not(WD), conc, known=kn)
        else:
            run.obligation(ctx, "well-defined-but-rejected", WD, conc, extra=str(d["e"]))
        run.sample({"class": spec["cls"], "model": pl.show(model_spec), "errors": [str(x) for x in d["e"]], "path_condition": [str(z3.simplify(c)) for c in ctx.pc][:6]})

    st = S.explore(fn, on_path, max_paths=30000, wall=1500)
    return run.result(st)


def _hash(ns, spec, run):
    """the real hash arithmetic: Bounds.__hash__ / variable.__hash__ executed with hash values as z3 terms"""
    def fn(ctx):
        l1, u1, l2, u2 = [ctx.int(n, plh.LO16, plh.HI16) for n in ("l1", "u1", "l2", "u2")]
        ctx.assume(z3.And(l1.e <= u1.e, l2.e <= u2.e))
        with E.hash_shadow():
            if spec["what"] == "bounds":
                h1 = ns.puan.Bounds(l1, u1).__hash__()
                h2 = ns.puan.Bounds(l2, u2).__hash__()
            elif spec["what"] == "atleast":
                v1, s1, v2, s2 = l1, ctx.int("s1", -1, 1), l2, ctx.int("s2", -1, 1)
                ctx.assume(z3.And(s1.e != 0, s2.e != 0))
                h1 = ns.pg.AtLeast(v1, ["a", "b"], variable="K", sign=s1).__hash__()
                h2 = ns.pg.AtLeast(v2, ["a", "b"], variable="K", sign=s2).__hash__()
                return dict(v=(l1, u1, l2, u2), h1=h1, h2=h2, at=(v1, s1, v2, s2))
            else:
                h1 = ns.puan.variable("x", bounds=(l1, u1)).__hash__()
                h2 = ns.puan.variable("x", bounds=(l2, u2)).__hash__()
        return dict(v=(l1, u1, l2, u2), h1=h1, h2=h2)

    def on_path(ctx, d):
        run.path(ctx)
        run.region("hash-arithmetic")
        l1, u1, l2, u2 = d["v"]

        def conc(m):
            return {"env": {"lo_x1": S.model_int(m, l1), "hi_x1": S.model_int(m, u1), "lo_x2": S.model_int(m, l2), "hi_x2": S.model_int(m, u2)}}
        differ = z3.Or(l1.e != l2.e, u1.e != u2.e)
        if "at" in d:
            v1, s1, v2, s2 = d["at"]
            differ = z3.Or(v1.e != v2.e, s1.e != s2.e)

            def conc(m):    # noqa
                return {"env": {"v_K1": S.model_int(m, v1), "s_K1": S.model_int(m, s1), "v_K2": S.model_int(m, v2), "s_K2": S.model_int(m, s2)}}
        # a collision is a CANDIDATE: it is a violation only if the real errors() then accepts the adversarial model built from it (replay decides)
        run.obligation(ctx, "different-definitions-equal-hash", z3.And(differ, E.hash_equal(d["h1"], d["h2"])), conc, soft=True)
        if ctx.query(E.hash_equal(d["h1"], d["h2"]))[0] == "sat":
            run.region("hash-model-equal-definitions-hash-equal-" + spec["what"])
        run.sample({"hash_value_1": repr(d["h1"])[:300]})

    try:
        st = S.explore(fn, on_path, max_paths=100, wall=300)
    except (TypeError, AttributeError, S.HarnessError) as e:
        # the current __hash__ uses an operation the hash model does not encode; validation no longer depends on hash values
        # (errors() compares definitions), so this part is informational: skip it rather than fail
        return run.skipped("hash function not encodable by the hash model: %s" % type(e).__name__)
    return run.result(st)
