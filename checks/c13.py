"""C13 — priority compression yields strictly dominating weights."""
import itertools
import random
import numpy as np
import z3

from sx import core as S, env as E, npshim, ffi

PROPERTY = "C13"
REGIONS = ["other-array-with-the-same-values-compressed-before", "array-compressed-before", "transposed-layout", "magnitude-above-2^53", "shadow", "prio", "rank", "first", "last", "min", "max", "1-D", "2-D-axis0", "2-D-axis1", "3-D", "all-zero-column", "tie", "negative-priority",
           "later-row-overrides"]
BOUNDS = ("every array entry symbolic with |p|<=50 (and |p|<=2^62 for the 1-D n=3 and 2x2 shapes, where translator validation is biased to adjacent values above 2^53); shapes: 1-D n<=4 (thorough 5), 2-D 2x2, 2x3 (thorough also 3x2) on both axes, 3-D 2x2x2 (axis 0, "
          "thorough); all seven methods; 'shadow' through the real FFI on path representatives (M8)")
OUTSIDE = "larger arrays; results that do not fit in 64 bits; 3-D arrays with axis != 0; 1-D arrays with an explicit integer axis (compressing a vector along its only axis is not a documented use: every 1-D example uses axis=None)"
FAMILY = "method x shape x axis"
ASSUMPTIONS = ["M1", "M8: py_optimized_bit_allocation_64's output depends only on the weak order and signs of its input (checked with two representatives on every call)"]
METHODS = ["shadow", "prio", "rank", "first", "last", "min", "max"]


def functions(ns):
    I = ns.pnd.integer_ndarray
    return [I.ndint_compress, I.reduce2d, I.ranking]


def instantiations(tier, seed):
    out = []
    shapes = [((2,), None), ((3,), None), ((2, 2), 0), ((2, 2), 1), ((1, 3), 0), ((3, 1), 1)]
    if tier == "thorough":
        shapes += [((4,), None), ((2, 3), 0), ((3, 2), 1), ((3, 2), 0), ((2, 2, 2), 0)]
    for sh, ax in shapes:
        for me in METHODS:
            if tier == "quick" and len(sh) == 2 and sh[0] * sh[1] > 4 and me not in ("shadow", "prio"):
                continue
            out.append({"shape": list(sh), "axis": ax, "method": me})
    # three priority rows with a concrete all-zero (or fully overridden) middle row: surviving rows are not adjacent (4 symbolic entries)
    for me in ("shadow", "prio", "rank"):
        out.append({"shape": [3, 2], "axis": 0, "method": me, "fixed": {"1,0": 0, "1,1": 0}})
        out.append({"shape": [3, 3], "axis": 0, "method": me, "fixed": {"1,0": 0, "1,1": 0, "1,2": 0, "0,2": 0, "2,0": 0, "2,1": 7}})
    # magnitudes up to 2^62 (numpy float64 is exact only up to 2^53): symbolic part unchanged, translator validation biased to adjacent large values
    for me in ("shadow", "prio", "rank", "last", "max"):
        out.append({"shape": [3], "axis": None, "method": me, "big": True})
        out.append({"shape": [2, 2], "axis": 0, "method": me, "big": True})
    # logically the same arrays, but handed over as transposed views (axis-permuted memory layout)
    for me in ("shadow", "prio", "first", "min"):
        # axis=None flattens to 1x4: four free entries cost ~150 s for shadow/prio, so one entry is pinned there
        out.append({"shape": [2, 2], "axis": None, "method": me, "layout": "T", "fixed": ({"1,1": 3} if me in ("shadow", "prio") else None)})
        out.append({"shape": [2, 2], "axis": 0, "method": me, "layout": "T"})
    # the same array object compressed twice: first with one method (discarded), then with the method under test
    pairs = [("min", "max"), ("min", "prio"), ("max", "first"), ("shadow", "last"), ("prio", "min"), ("first", "shadow")]
    for k, (b4, me) in enumerate(pairs if tier == "thorough" else pairs[:4]):
        out.append({"shape": [2, 2], "axis": k % 2, "method": me, "before": b4})
        if tier == "thorough":
            out.append({"shape": [3], "axis": None, "method": me, "before": b4})
    # another array with the same values compressed first in the same process (one column's entries exchanged between the rows)
    for me in ("shadow", "prio") if tier == "quick" else ("shadow", "prio", "rank", "last"):
        if tier == "thorough":
            out.append({"shape": [2, 2], "axis": 0, "method": me, "prior": "colswap"})
            out.append({"shape": [2, 3], "axis": 0, "method": me, "prior": "colswap", "fixed": {"0,2": 0, "1,0": 0}})
        # three free entries (four cost minutes: every earlier compression forks on the same comparisons again)
        out.append({"shape": [2, 3], "axis": 0, "method": me, "prior": "colswap", "fixed": {"0,2": 0, "1,0": 0, "1,1": 0}})
    if tier == "quick":
        out.append({"shape": [2, 2, 2], "axis": 0, "method": "first"})
        out.append({"shape": [2, 2, 2], "axis": 0, "method": "max"})
        out.append({"shape": [2, 2, 2], "axis": 0, "method": "last"})        # several batches: results stay with their batch
        out.append({"shape": [3, 1, 2], "axis": 0, "method": "min"})
        out.append({"shape": [3, 2, 1], "axis": 0, "method": "last"})
    for mu in ("no_dominance", "ignore_row_order"):
        out.append({"kind": "mutant", "mutant": mu, "shape": [2, 2], "axis": 0, "method": "shadow"})
    return out


def fibres(shape, axis, me=None):
    """list of (output index, [input indices along the compression axis]) according to the documented semantics"""
    if len(shape) == 2 and axis is None:
        # flattened in logical row-major order first, then every element is its own column
        return [((i * shape[1] + j,), [(i, j)]) for i in range(shape[0]) for j in range(shape[1])]
    if len(shape) == 3 and me in ("min", "max"):
        # numpy reduction along the true axis 0
        return [((i, j), [(g, i, j) for g in range(shape[0])]) for i in range(shape[1]) for j in range(shape[2])]
    if len(shape) == 1:
        if axis is None:
            return [((j,), [(j,)]) for j in range(shape[0])]
        return [((j,), [(j,)]) for j in range(shape[0])]
    if len(shape) == 2:
        if axis == 0:
            return [((j,), [(i, j) for i in range(shape[0])]) for j in range(shape[1])]
        return [((i,), [(i, j) for j in range(shape[1])]) for i in range(shape[0])]
    # 3-D, axis 0: batched over the first axis, compressed along the second
    return [((g, j), [(g, i, j) for i in range(shape[1])]) for g in range(shape[0]) for j in range(shape[2])]


def zabs(x):
    return z3.If(x >= 0, x, -x)


def run_inst(spec, run):
    ns = E.load_repo()
    mu = spec.get("mutant")
    shape, axis, me = tuple(spec["shape"]), spec["axis"], spec["method"]
    npshim.install(ns.pnd)
    stub = ffi.install(ns.pnd)
    try:
        def fn(ctx):
            arr = np.empty(shape, dtype=object)
            ent = {}
            fixed = spec.get("fixed") or {}
            for idx in np.ndindex(*shape):
                key = ",".join(map(str, idx))
                rng_ = 2 ** 62 if spec.get("big") else 50
                s = S.K(fixed[key]) if key in fixed else ctx.int("p" + "_".join(map(str, idx)), -rng_, rng_)
                arr[idx] = s
                ent[idx] = s
            if spec.get("layout") == "T":
                arr = np.ascontiguousarray(arr.T).T       # same logical content, Fortran-ordered memory
            X = ns.pnd.integer_ndarray(arr) if len(shape) >= 2 else ns.pnd.integer_ndarray(arr, variables=[ns.puan.variable(i) for i in range(shape[0])], index=[ns.puan.variable(i) for i in range(shape[0])])
            err = res = None
            try:
                if spec.get("prior") == "colswap":
                    # an earlier compression of ANOTHER array holding the same values, for every column in turn: that column's entries exchanged between the first two rows
                    # (same shape, same multiset of priorities, ties fall differently across the row boundary); result discarded
                    for j in range(shape[1]):
                        Y = np.empty(shape, dtype=object)
                        for idx in np.ndindex(*shape):
                            Y[idx] = arr[idx]
                        Y[0, j], Y[1, j] = arr[1, j], arr[0, j]
                        ns.pnd.integer_ndarray(Y).ndint_compress(method=me, axis=axis)
                if spec.get("before"):
                    # an earlier compression of the SAME array object with another method (result discarded): the array is an input, not scratch space
                    X.ndint_compress(method=spec["before"], axis=axis)
                res = X.ndint_compress(method=me, axis=axis)
            except Exception as e:    # noqa
                err = "%s: %s" % (type(e).__name__, e)
            return dict(ent=ent, res=res, err=err, X=X)

        def on_path(ctx, d):
            run.path(ctx)
            ent = d["ent"]

            def conc(m):
                a = np.zeros(shape, dtype=int)
                for idx, s in ent.items():
                    a[idx] = S.model_int(m, s)
                return {"arr": a.tolist()}
            if d["err"] is not None:
                run.obligation(ctx, "raises", True, conc, extra=d["err"])
                return
            run.region(me)
            run.region({1: "1-D", 3: "3-D"}.get(len(shape), "2-D-axis%s" % axis))
            if spec.get("before"):
                run.region("array-compressed-before")
            if spec.get("prior"):
                run.region("other-array-with-the-same-values-compressed-before")
            # the caller's array still holds what it held before the call(s)
            Xa = np.asarray(d["X"], dtype=object)
            fr = [S.term(Xa[idx]) != S.term(ent[idx]) for idx in ent] if Xa.shape == tuple(shape) else [z3.BoolVal(True)]
            run.obligation(ctx, "input-array-unchanged", z3.Or(fr), conc)
            if spec.get("layout") == "T":
                run.region("transposed-layout")
            res = np.asarray(d["res"], dtype=object)
            fb = fibres(shape, axis, me)
            if len(shape) == 1:
                out_shape = (shape[0],)
            elif len(shape) == 2 and axis is None:
                out_shape = (shape[0] * shape[1],)
            elif len(shape) == 2:
                out_shape = (shape[1],) if axis == 0 else (shape[0],)
            else:
                out_shape = (shape[1], shape[2]) if me in ("min", "max") else (shape[0], shape[2])
            if tuple(res.shape) != out_shape:
                run.obligation(ctx, "output-shape", True, conc, extra="shape %s expected %s" % (res.shape, out_shape))
                return
            w = {o: S.term(res[o]) for o, _ in fb}
            cols = {o: [ent[i].e for i in idxs] for o, idxs in fb}
            viol = []

            def last_nz(xs):
                e, rho = z3.IntVal(0), z3.IntVal(-1)
                for k, x in enumerate(xs):
                    e = z3.If(x != 0, x, e)
                    rho = z3.If(x != 0, z3.IntVal(k), rho)
                return e, rho
            if me in ("first", "last"):
                for o, xs in cols.items():
                    seq = xs if me == "last" else xs[::-1]
                    e, _ = last_nz(seq)
                    viol.append(w[o] != e)
            elif me == "max":
                for o, xs in cols.items():
                    viol.append(z3.Or(z3.Or([w[o] < x for x in xs]), z3.And([w[o] != x for x in xs])))
            elif me == "min":
                for o, xs in cols.items():
                    allz = z3.And([x == 0 for x in xs])
                    ismin = z3.And(z3.Or([z3.And(x != 0, w[o] == x) for x in xs]), z3.And([z3.Or(x == 0, w[o] <= x) for x in xs]))
                    viol.append(z3.If(allz, w[o] != 0, z3.Not(ismin)))
            else:
                E_, R_ = {}, {}
                for o, xs in cols.items():
                    E_[o], R_[o] = last_nz(xs)
                if mu == "ignore_row_order":
                    R_ = {o: z3.IntVal(0) for o in R_}
                os_ = list(cols)
                # comparisons are only meaningful within one 2-D slice (3-D: same batch index)
                def same(o1, o2):
                    return len(o1) == 1 or o1[0] == o2[0]
                def lt(a, b):
                    return z3.Or(R_[a] < R_[b], z3.And(R_[a] == R_[b], zabs(E_[a]) < zabs(E_[b])))
                def eq(a, b):
                    return z3.And(R_[a] == R_[b], zabs(E_[a]) == zabs(E_[b]))
                nz = {o: E_[o] != 0 for o in os_}
                if me in ("shadow", "prio"):
                    for o in os_:
                        viol.append((E_[o] == 0) != (w[o] == 0))
                        viol.append(z3.And(E_[o] > 0, w[o] <= 0))
                        viol.append(z3.And(E_[o] < 0, w[o] >= 0))
                    for a_, b_ in itertools.permutations(os_, 2):
                        if not same(a_, b_):
                            continue
                        both = z3.And(nz[a_], nz[b_])
                        viol.append(z3.And(both, eq(a_, b_), zabs(w[a_]) != zabs(w[b_])))
                        viol.append(z3.And(both, lt(a_, b_), zabs(w[a_]) >= zabs(w[b_])))
                    if me == "shadow" and mu != "no_dominance":
                        for k in os_:
                            lower = sum((z3.If(z3.And(nz[j], lt(j, k)), zabs(w[j]), 0) for j in os_ if j != k and same(j, k)), z3.IntVal(0))
                            viol.append(z3.And(nz[k], zabs(w[k]) <= lower))
                    if mu == "no_dominance":
                        for k in os_:
                            lower = sum((z3.If(z3.And(nz[j], lt(j, k)), zabs(w[j]), 0) for j in os_ if j != k and same(j, k)), z3.IntVal(0))
                            viol.append(z3.And(nz[k], zabs(w[k]) <= 2 * lower + 1))
                    if me == "prio":
                        # dense: outputs are concrete per path
                        groups = {}
                        for o in os_:
                            groups.setdefault(o[0] if len(o) > 1 else 0, []).append(abs(S.concrete(res[o])) if S.concrete(res[o]) is not None else None)
                        for g, vals in groups.items():
                            if any(v is None for v in vals):
                                viol.append(z3.BoolVal(True))
                                continue
                            pos = sorted(set(v for v in vals if v != 0))
                            if pos != list(range(1, len(pos) + 1)):
                                viol.append(z3.BoolVal(True))
                else:   # rank: dense ranking of the signed priorities (negative < zero < positive)
                    def slt(a, b):
                        na, nb, pa, pb = E_[a] < 0, E_[b] < 0, E_[a] > 0, E_[b] > 0
                        za, zb = E_[a] == 0, E_[b] == 0
                        return z3.Or(z3.And(na, z3.Not(nb)), z3.And(na, nb, lt(b, a)), z3.And(za, pb), z3.And(pa, pb, lt(a, b)))
                    for a_, b_ in itertools.permutations(os_, 2):
                        if not same(a_, b_):
                            continue
                        viol.append(slt(a_, b_) != (w[a_] < w[b_]))
                    groups = {}
                    for o in os_:
                        groups.setdefault(o[0] if len(o) > 1 else 0, []).append(S.concrete(res[o]))
                    for g, vals in groups.items():
                        if any(v is None for v in vals):
                            viol.append(z3.BoolVal(True))
                            continue
                        u = sorted(set(vals))
                        if u != list(range(u[0], u[0] + len(u))) or u[0] not in (0, 1):
                            viol.append(z3.BoolVal(True))
                if ctx.query(z3.Or([z3.Not(nz[o]) for o in os_]))[0] == "sat":
                    run.region("all-zero-column")
                if len(os_) > 1 and "tie" not in run.regions and ctx.query(z3.Or([z3.And(nz[a_], nz[b_], eq(a_, b_)) for a_, b_ in itertools.combinations(os_, 2) if same(a_, b_)] or [z3.BoolVal(False)]))[0] == "sat":
                    run.region("tie")
                if "negative-priority" not in run.regions and ctx.query(z3.Or([E_[o] < 0 for o in os_]))[0] == "sat":
                    run.region("negative-priority")
                if len(shape) >= 2 and "later-row-overrides" not in run.regions and ctx.query(z3.Or([z3.And(R_[a_] < R_[b_], zabs(E_[a_]) > zabs(E_[b_]), nz[a_], nz[b_]) for a_, b_ in itertools.permutations(os_, 2) if same(a_, b_)] or [z3.BoolVal(False)]))[0] == "sat":
                    run.region("later-row-overrides")
            run.obligation(ctx, me, z3.Or(viol) if viol else z3.BoolVal(False), conc)
            ext = None
            if spec.get("big"):
                es = [v.e for v in ent.values() if not z3.is_int_value(z3.simplify(v.e))]
                ext = z3.Or([z3.And(a_ == b_ + 1, b_ >= 2 ** 53) for a_ in es for b_ in es if a_ is not b_] or [z3.BoolVal(False)])
                run.region("magnitude-above-2^53")
            if spec.get("prior") == "colswap" and len(shape) == 2 and axis == 0:
                # boundary-biased sample: the last column ties with another column and shares its deciding row in this array, but not in the
                # array compressed before it (there the two tied priorities sit in different rows)
                colX = lambda k: [ent[(i, k)].e for i in range(shape[0])]     # noqa
                alts = []
                for j in range(shape[1]):
                    colY = [ent[(1, j)].e, ent[(0, j)].e] + [ent[(i, j)].e for i in range(2, shape[0])]
                    ej, rj = last_nz(colX(j))
                    ey, ry = last_nz(colY)
                    rhoX = [last_nz(colX(k))[1] for k in range(shape[1])]
                    rhoY = [ry if k == j else rhoX[k] for k in range(shape[1])]
                    # ... and both arrays use both rows (every row decides at least one column), so they look alike at a coarse level
                    occupied = z3.And([z3.Or([r_ == row for r_ in rho]) for rho in (rhoX, rhoY) for row in (0, 1)])
                    alts += [z3.And(zabs(last_nz(colX(k))[0]) == zabs(ej), ej != 0, rhoX[k] == rj, zabs(ey) == zabs(ej), ry != rj, occupied) for k in range(shape[1]) if k != j]
                ext = z3.Or(alts)
                # maximal ties first: every non-zero entry has the same magnitude (falls back to the plain tie condition)
                es_ = [v.e for v in ent.values()]
                alleq = z3.And([z3.Or(a_ == 0, b_ == 0, zabs(a_) == zabs(b_)) for a_, b_ in itertools.combinations(es_, 2)])
                if ctx.query(z3.And(ext, alleq))[0] == "sat":
                    ext = z3.And(ext, alleq)
            run.validate(ctx, conc, lambda m: {"res": [S.model_int(m, res[o]) for o, _ in fb]}, extremes=ext)
            run.sample({"shape": list(shape), "axis": axis, "method": me, "path_condition": [str(z3.simplify(x)) for x in ctx.pc][:6],
                        "result": [str(z3.simplify(w[o])) for o, _ in fb], "ffi_calls": stub.calls})

        st = S.explore(fn, on_path, max_paths=60000, wall=2400)
        r = run.result(st)
        r["notes"].append({"ffi_calls": stub.calls})
        return r
    finally:
        ffi.uninstall(ns.pnd)
        npshim.uninstall(ns.pnd)
