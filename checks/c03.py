"""C03 — evaluation computes the arithmetic truth function of every node."""
import random
import z3

from sx import core as S, env as E, pl, plh, families as F

PROPERTY = "C03"
REGIONS = ["prefixed-subproposition-overridden", "override-present", "negative-sign", "integer-leaf", "generated-id-node", "value-outside-declared-box"]
BOUNDS = ("PL family skeletons (<=7 compounds, depth<=3, <=6 leaves); thresholds |v|<=2^20 and signs symbolic on "
          "explicitly named AtLeast/AtMost nodes; integer-leaf boxes symbolic within [-32768,32767]; leaf values "
          "symbolic inside their box; <=2 sub-proposition overrides (presence and 0/1 value symbolic)")
OUTSIDE = ("larger skeletons; leaf values beyond +-2^20; non-integer values; symbolic thresholds on "
           "generated-id nodes (M6); non-constant overrides of sub-proposition ids")
FAMILY = "curated PL skeletons + VERIF_SEED-driven random skeletons, each under a seeded leaf-name assignment and value-form assignment"
ASSUMPTIONS = ["M4 int shadow (proxy accepted as int)", "M5 structural hash tokens", "M6 explicit ids wherever a threshold is symbolic",
               "M10 symbolic dictionaries", "integers are mathematical (no int64 wrap inside plog: pure Python ints)"]
FORMS = ["int", "tuple", "bounds"]


def functions(ns):
    return [ns.pg.AtLeast.evaluate, ns.pg.AtLeast.evaluate_propositions, ns.pg.AtLeast.assume, ns.puan.variable.evaluate,
            ns.puan.variable.assume, ns.puan.Bounds.__init__, ns.puan.Bounds.constant, ns.pg.AtLeast.__init__, ns.pg.AtLeast.flatten]


def instantiations(tier, seed):
    rng = random.Random(seed * 7919 + 3)
    out = []
    skels = F.pl_family(tier, seed, n_quick=50, n_thorough=800)
    for k, sk in enumerate(skels):
        names = F.ALT_NAMES[(k + seed) % len(F.ALT_NAMES)]
        m = F.rename(F.symbolize(sk), names)
        lv = list(pl.leaves(m))
        forms = {l: FORMS[(n + k + seed) % 3] for n, l in enumerate(lv)}
        ids = pl.explicit_ids(m)
        ov = rng.sample(ids, min(len(ids), 2)) if (k % 2 == 0) else []
        out.append({"model": m, "forms": forms, "override": ov, "ovform": FORMS[(k + 1) % 3], "warm": k % 3 == 1})
        if ids and k % 2 == 1:
            # sub-propositions whose own variable is declared constant, overridden (or not) by the interpretation: the interpretation wins
            import copy as _copy
            mp = _copy.deepcopy(m)
            n_ = 0
            for c in pl.compounds(mp):
                if c.get("id") and c["t"] != "Not":
                    c["vb"] = [[1, 1], [0, 0], [0, 1]][(k + n_) % 3]
                    n_ += 1
            out.append({"model": mp, "forms": forms, "override": rng.sample(ids, min(len(ids), 2)), "ovform": FORMS[k % 3]})
        if k % 3 == 0:
            # the interpretation wins over the declared bounds (documented: variable("a", bounds=(1,1)).evaluate({"a": 0}) == (0,0)):
            # leaf values free in [-2^20, 2^20] whatever the box, boxes may be degenerate
            out.append({"model": m, "forms": forms, "override": [], "ovform": "int", "outbox": True})
    # oracle mutants: must be refuted
    base = F.symbolize(F.AL(2, F.a(), F.i(), F.AL(1, F.b(), F.c(), id="B", sign=1), id="A", sign=1))
    for mu in ("ge_to_gt", "ignore_sign", "ignore_override"):
        out.append({"kind": "mutant", "mutant": mu, "model": base, "forms": {"a": "int", "i": "tuple", "b": "bounds", "c": "int"},
                    "override": ["B"], "ovform": "int"})
    return out


def _mutate(ref, mu, ns, model, vals, fixed):
    return ref


def run_inst(spec, run):
    ns = E.load_repo()
    model_spec = spec["model"]
    mu = spec.get("mutant")
    # validated by construction; confirm on a concrete representative
    rep = pl.build(ns, model_spec, plh.mid_env(model_spec))
    if rep.errors() != []:
        return run.skipped("model fails the repository's own validation (errors() != [])")

    def fn(ctx):
        env = plh.sym_env(ctx, model_spec)
        vals = plh.leaf_syms(ctx, model_spec, env, inbox=not spec.get("outbox"))
        m1 = pl.build(ns, model_spec, env)
        m2 = pl.build(ns, model_spec, env)
        zvals = {k: v.e for k, v in vals.items()}
        ovs = {}
        for oid in spec["override"]:
            ovs[oid] = (ctx.bool("p_" + oid), ctx.int("o_" + oid, 0, 1))
        fixed = {}
        for oid, (p, o) in ovs.items():
            if mu == "ignore_override":
                continue
            fixed[oid] = (lambda r, p=p, o=o: z3.If(p.e, o.e, r))
        nodes = plh.walk(ns, m1)
        memo = {}
        ref = {nid: pl.obj_sem(ns, objs[0], zvals, fixed, memo) for nid, objs in nodes.items()}
        if mu == "ge_to_gt":
            ref = {k: _gt_sem(ns, nodes[k][0], zvals) for k in ref}
        if mu == "ignore_sign":
            ref = {k: _nosign_sem(ns, nodes[k][0], zvals) for k in ref}

        def interp():
            ent = {}
            for l, v in vals.items():
                ent[l] = (True, plh.form(ns, spec["forms"][l], v))
            for oid, (p, o) in ovs.items():
                ent[oid] = (p, plh.form(ns, spec["ovform"], o))
            return E.SymDict(ent)
        i1, i2 = interp(), interp()
        err = None
        try:
            if spec.get("warm"):
                plh.warm(ns, m1)
                plh.warm(ns, m2)
            r = m1.evaluate_propositions(i1)
            top = m2.evaluate(i2)
        except Exception as e:      # noqa
            err = "%s: %s" % (type(e).__name__, e)
            r, top = None, None
        return dict(env=env, vals=vals, ovs=ovs, ref=ref, r=r, top=top, err=err, i1=i1, topid=m1.id,
                    gen=[n for n, o in nodes.items() if getattr(o[0], "generated_id", False)], allids=set(nodes))

    def on_path(ctx, res):
        run.path(ctx)
        env, vals, ovs = res["env"], res["vals"], res["ovs"]

        def conc(m):
            return {"env": plh.conc_env(m, env), "vals": plh.conc_vals(m, vals),
                    "ov": {k: [bool(S.model_int(m, p.e)), S.model_int(m, o)] for k, (p, o) in ovs.items()}}
        if res["err"] is not None:
            run.obligation(ctx, "raises", True, conc, extra=res["err"])
            return
        if any(res["i1"].decided.get(k) for k in ovs):
            run.region("override-present")
            if any(c.get("vb") in ([1, 1], [0, 0]) and res["i1"].decided.get(c.get("id")) for c in pl.compounds(model_spec)):
                run.region("prefixed-subproposition-overridden")
        if any(v == -1 for v in ctx.fixed.values()):
            run.region("negative-sign")
        if any((lo, hi) != (0, 1) for lo, hi in pl.leaves(model_spec).values()):
            run.region("integer-leaf")
        if res["gen"]:
            run.region("generated-id-node")
        if spec.get("outbox"):
            run.region("value-outside-declared-box")
        r, ref = res["r"], res["ref"]
        viol = []
        for nid, bnd in r.items():
            if nid not in ref:
                viol.append(z3.BoolVal(True))
                continue
            viol.append(z3.Or(S.term(bnd.lower) != ref[nid], S.term(bnd.upper) != ref[nid]))
        prefixed = any(c.get("vb") in ([1, 1], [0, 0]) for c in pl.compounds(model_spec))
        if not any(res["i1"].decided.get(k) for k in ovs) and not prefixed:     # a fixed node hides its descendants from the result
            if set(r) != res["allids"]:
                viol.append(z3.BoolVal(True))
        viol.append(z3.Or(S.term(res["top"].lower) != ref[res["topid"]], S.term(res["top"].upper) != ref[res["topid"]]))
        run.obligation(ctx, "truth-function", z3.Or(viol), conc)
        run.validate(ctx, conc, lambda m: {"props": {k: [S.model_int(m, b.lower), S.model_int(m, b.upper)] for k, b in r.items()},
                                           "top": [S.model_int(m, res["top"].lower), S.model_int(m, res["top"].upper)]}, extremes=plh.extremes(env))
        run.sample({"model": pl.show(model_spec), "path_condition": [str(z3.simplify(c)) for c in ctx.pc][:8],
                    "result_top": str(z3.simplify(S.term(res["top"].lower)))[:300]})

    st = S.explore(fn, on_path, max_paths=30000, wall=2400)
    return run.result(st)


def _gt_sem(ns, node, vals):
    if issubclass(node.__class__, ns.puan.variable):
        return vals[node.id]
    tot = pl._sum([_gt_sem(ns, c, vals) for c in node.propositions])
    s = S.term(node.sign)
    return pl._I(z3.If(s == 1, tot > S.term(node.value), -tot > S.term(node.value)))


def _nosign_sem(ns, node, vals):
    if issubclass(node.__class__, ns.puan.variable):
        return vals[node.id]
    tot = pl._sum([_nosign_sem(ns, c, vals) for c in node.propositions])
    return pl._I(tot >= S.term(node.value))
