"""C15 — solver bridge: objectives, solutions and ids stay aligned."""
import itertools
import random
import numpy as np
import z3

from sx import core as S, env as E, npshim, ffi, cfg, pl, plh, families as F, poly


def _clear_caches(ns_):
    """empty the configurator-level caches if the current tree has any (lru_cache on the class, pinned tree); a no-op for per-instance caches"""
    for name in ("ge_polyhedron", "leafs"):
        f = ns_.cc.StingyConfigurator.__dict__.get(name)
        f = getattr(f, "fget", f)
        cc_ = getattr(f, "cache_clear", None)
        if cc_ is not None:
            cc_()

PROPERTY = "C15"
REGIONS = ["several-dictionaries-in-one-select", "solve", "solve-include-virtual", "solve-none", "select", "select-none", "select-raises", "cfgselect-only-leafs", "exact-solver",
           "generated-id-column", "foreign-id-in-objective", "two-objectives"]
BOUNDS = ("PL family models (<=7 compounds, concrete parameters, M7) and CFG family configurators; objective dictionaries over (column ids + 2 foreign ids) "
          "with symbolic presence and symbolic weights |w|<=2^20; the solver callable is the harness and returns one symbolic integer per column "
          "(|s|<=2^20), or None, or raises; select(): priority values symbolic |p|<=20 on <=2 ids. Exact-solver clause: z3's optimiser plugged in as "
          "the callable with concrete seeded weights, optimality re-decided by a separate query (concrete per instantiation)")
OUTSIDE = "solver=None (the built-in beta solver); try_reduce_before=True; more than three objectives per call"
FAMILY = "models/configurators x {solve, select, StingyConfigurator.select(only_leafs), exact} x solver answer kind"
ASSUMPTIONS = ["M1", "M4", "M7", "M8", "M10", "for select() the expected objective is recomputed by the harness with its own id->column alignment and the real ndint_compress (C13/C14 cover the compression itself)"]


def functions(ns):
    return [ns.pg.AtLeast.solve, ns.pnd.ge_polyhedron_config.select, ns.cc.StingyConfigurator.select, ns.cc.StingyConfigurator.leafs,
            ns.pnd.variable_ndarray.construct, ns.pnd.ge_polyhedron_config._vectors_from_prios, ns.pg.AtLeast.to_ge_polyhedron]


def instantiations(tier, seed):
    rng = random.Random(seed * 1301 + 9)
    out = []
    skels = [s for s in F.pl_family(tier, seed, n_quick=20, n_thorough=250)]
    for k, sk in enumerate(skels):
        if sk["t"] == "Not":
            continue
        m = F.rename(sk, F.ALT_NAMES[(k + seed) % len(F.ALT_NAMES)])
        if k % 4 in (1, 2):
            # user-chosen ids that merely look like generated ones ("VAR..."), with and without the helper variables reported
            m = F.rename(m, {c["id"]: "VAR" + str(c["id"]) for c in pl.compounds(m) if c.get("id")})
        for ans in (["vector", "none"] if k % 3 == 0 else ["vector"]):
            out.append({"part": "solve", "model": m, "virtual": bool(k % 2), "answer": ans, "nobj": 1 + (k % 2)})
        if tier == "thorough" or k % 4 == 0:
            out.append({"part": "exact", "model": m, "wseed": rng.randrange(10 ** 6)})
    for k, c in enumerate(cfg.cfg_family(tier, seed, n_quick=10, n_thorough=200)):
        its = cfg.items(c)
        keys = rng.sample(its, min(2, len(its)))
        for ans in ["vector", "none", "raise"][: (3 if k % 3 == 0 else 1)]:
            out.append({"part": "select", "model": c, "prio_keys": keys, "answer": ans})
        if k % 3 == 0:
            # a solver that has no answer (None), asked through the configurator, with and without the restriction to leaf items
            out.append({"part": "cfgselect", "model": c, "prio_keys": keys[:1], "answer": "none", "only_leafs": True})
            out.append({"part": "cfgselect", "model": c, "prio_keys": keys[:1], "answer": "none", "only_leafs": False})
            # the solver may fail in any way: exceptions without arguments, with several, of other classes
            for how in ("bare", "assert", "two-args"):
                out.append({"part": ["select", "cfgselect"][k % 2], "model": c, "prio_keys": keys[:1], "answer": "raise", "raise_how": how, "only_leafs": bool(k % 4)})
        out.append({"part": "cfgselect", "model": c, "prio_keys": keys[:1], "answer": "vector", "only_leafs": True})
        if k % 2 == 0 or tier == "thorough":
            out.append({"part": ["select", "cfgselect"][(k // 2) % 2], "model": c, "prio_keys": keys[:1], "answer": "vector", "only_leafs": bool(k % 3 == 0), "nprio": 2 + (k // 4) % 2})
        if k % 3 == 1:
            out.append({"part": "cfgselect", "model": c, "prio_keys": keys[:1], "answer": "vector", "only_leafs": False})
        if tier == "thorough" or k % 4 == 0:
            out.append({"part": "exact", "model": c, "wseed": rng.randrange(10 ** 6)})
    base = F.N("All", F.N("Any", F.a(), F.b()), F.N("Imply", F.c(), F.d(), id="C"), id="A")
    for mu in ("off_by_one_column", "keep_virtual"):
        out.append({"kind": "mutant", "mutant": mu, "part": "solve", "model": base, "virtual": False, "answer": "vector", "nobj": 1})
    return out


class SolverRaised(Exception):
    pass


def run_inst(spec, run):
    ns = E.load_repo()
    mu = spec.get("mutant")
    part = spec["part"]
    model_spec = spec["model"]
    _clear_caches(ns)
    _clear_caches(ns)
    try:
        m0 = pl.build(ns, model_spec, {})
    except Exception as e:    # noqa
        return run.skipped("constructor rejects the instantiation: %s" % type(e).__name__)
    if m0.errors() != []:
        return run.skipped("model fails the repository's own validation (errors() != [])")
    if poly.prefixed(ns, m0):
        return run.skipped("a sub-proposition is pre-fixed to a constant")
    M0 = m0.to_ge_polyhedron(active=True)
    cols = [v.id for v in M0.A.variables]
    if len(cols) > 16:
        return run.skipped("more than 16 columns")
    nodes = plh.walk(ns, pl.build(ns, model_spec, {}))
    gen = {nid for nid, o in nodes.items() if getattr(o[0], "generated_id", False)}
    leafs = {nid for nid, o in nodes.items() if type(o[0]) == ns.puan.variable}
    if part == "exact":
        return _exact(ns, spec, run, m0, M0, cols, nodes)
    FOREIGN = ["__foreign__", "zz-unknown"]
    npshim.install(ns.pnd)
    stub = ffi.install(ns.pnd)
    try:
        def fn(ctx):
            _clear_caches(ns)
            _clear_caches(ns)
            m1 = pl.build(ns, model_spec, {})
            got = {}
            sols = []

            def solver(P, objs):
                got["P"] = P
                got["objs"] = [list(o) for o in objs]
                if spec["answer"] == "raise":
                    how = spec.get("raise_how", "message")
                    if how == "bare":
                        raise SolverRaised                     # an exception without arguments
                    if how == "assert":
                        raise AssertionError()
                    if how == "two-args":
                        raise SolverRaised("solver failed", 3)
                    raise SolverRaised("solver failed")
                res = []
                for k in range(len(got["objs"])):
                    if spec["answer"] == "none":
                        res.append((None, 0, 4))
                    else:
                        s = [ctx.int("s%d_%d" % (k, j), -2 ** 20, 2 ** 20) for j in range(len(cols))]
                        sols.append(s)
                        res.append((np.array(s, dtype=object), 0, 6))
                return res
            err = out = None
            d = dict(got=got, sols=sols)
            try:
                if part == "solve":
                    keys = cols + FOREIGN
                    objs, meta = [], []
                    prng = random.Random(len(keys) * 7 + spec["nobj"])
                    for k in range(spec["nobj"]):
                        # presence: symbolic for <=3 seeded keys (one of them foreign), concrete (seeded) for the rest: every flag is a fork
                        symk = set(prng.sample(range(len(cols)), min(2, len(cols))) + [len(cols)])
                        pres = [ctx.bool("q%d_%d" % (k, i)) if i in symk else (prng.random() < 0.5) for i in range(len(keys))]
                        wts = [ctx.int("w%d_%d" % (k, i), -2 ** 20, 2 ** 20) for i in range(len(keys))]
                        objs.append(E.SymDict({keys[i]: (pres[i], wts[i]) for i in range(len(keys))}))
                        meta.append((pres, wts))
                    d["meta"] = meta
                    out = list(m1.solve(objs, solver=solver, include_virtual_variables=spec["virtual"]))
                else:
                    prios = {k: ctx.int("p_%s" % k, -20, 20) for k in spec["prio_keys"]}
                    d["prios"] = prios
                    # several priority dictionaries in ONE call: every request gets its own objective and its own reported dictionary
                    more = [{spec["prio_keys"][-1]: 2 + j} for j in range(spec.get("nprio", 1) - 1)]
                    d["prios_list"] = [prios] + more
                    if part == "select":
                        P = m1.ge_polyhedron
                        d["Pself"] = P
                        out = list(P.select(dict(prios), *map(dict, more), solver=solver))
                    else:
                        out = list(m1.select(dict(prios), *map(dict, more), solver=solver, only_leafs=spec["only_leafs"]))
            except ns.pnd.InfeasibleError as e:
                err = "InfeasibleError"
            except Exception as e:    # noqa
                err = "%s: %s" % (type(e).__name__, e)
            d.update(out=out, err=err)
            d["syms"] = dict(ctx.syms)
            return d

        def on_path(ctx, d):
            run.path(ctx)

            def conc(m):
                return {k: (bool(S.model_int(m, v.e)) if isinstance(v, S.SymBool) else S.model_int(m, v)) for k, v in d["syms"].items()}
            got, out = d["got"], d["out"]
            if spec["answer"] == "raise":
                run.region("select-raises")
                run.obligation(ctx, "solver-exception-becomes-InfeasibleError", d["err"] != "InfeasibleError", conc, extra=str(d["err"]))
                return
            if d["err"] is not None:
                run.obligation(ctx, "raises", True, conc, extra=d["err"])
                return
            viol = []
            P = got.get("P")
            if P is None:
                run.obligation(ctx, "solver-called", True, conc)
                return
            # received polyhedron == asserted polyhedron of a fresh copy
            try:
                same = (np.asarray(P).astype(int).tolist() == np.asarray(M0).astype(int).tolist()) and [v.id for v in P.variables] == [v.id for v in M0.variables]
            except Exception:    # noqa
                same = False
            if not same:
                viol.append(z3.BoolVal(True))
            if any(c in gen for c in cols):
                run.region("generated-id-column")
            nobj = len(got["objs"])
            if part == "solve":
                run.region("solve")
                if spec["virtual"]:
                    run.region("solve-include-virtual")
                if nobj != spec["nobj"]:
                    viol.append(z3.BoolVal(True))
                if nobj >= 2:
                    run.region("two-objectives")
                for k, (pres, wts) in enumerate(d["meta"][:nobj]):
                    ov = got["objs"][k]
                    if len(ov) != len(cols):
                        viol.append(z3.BoolVal(True))
                        continue
                    for j in range(len(cols)):
                        jj = (j + 1) % len(cols) if mu == "off_by_one_column" else j
                        pz = pres[jj].e if isinstance(pres[jj], S.SymBool) else z3.BoolVal(pres[jj])
                        viol.append(S.term(ov[j]) != z3.If(pz, wts[jj].e, 0))
                run.region("foreign-id-in-objective")
            else:
                run.region("select" if part == "select" else "cfgselect-only-leafs")
                if part == "select" and P is not d.get("Pself"):
                    viol.append(z3.BoolVal(True))
                # expected objective: harness-side alignment + real compression
                dv = list(np.asarray(P.default_prio_vector))
                plist = d["prios_list"]
                if len(plist) >= 2:
                    run.region("several-dictionaries-in-one-select")
                if nobj != len(plist) or any(len(o) != len(cols) for o in got["objs"]):
                    viol.append(z3.BoolVal(True))
                else:
                    for kk, prios in enumerate(plist):
                        uv = [prios[c] if c in prios else 0 for c in cols]
                        arr = np.empty((1, 2, len(cols)), dtype=object)
                        for j in range(len(cols)):
                            arr[0, 0, j] = S.K(int(dv[j]))
                            arr[0, 1, j] = uv[j] if isinstance(uv[j], S.SymInt) else S.K(int(uv[j]))
                        exp = ns.pnd.integer_ndarray(arr).ndint_compress(method="shadow", axis=0)
                        for j in range(len(cols)):
                            viol.append(S.term(got["objs"][kk][j]) != S.term(exp[0][j]))
            # reported dictionaries
            if len(out) != nobj:
                viol.append(z3.BoolVal(True))
            for k, triple in enumerate(out):
                rep = triple if part == "cfgselect" and spec.get("only_leafs") else triple[0]
                if spec["answer"] == "none":
                    run.region("solve-none" if part == "solve" else "select-none")
                    if rep != {}:
                        viol.append(z3.BoolVal(True))
                    continue
                s = d["sols"][k]
                if part == "solve":
                    keep = [c for c in cols if not (c in gen and not (spec["virtual"] or mu == "keep_virtual"))]
                elif part == "cfgselect" and spec["only_leafs"]:
                    keep = [c for c in cols if c in leafs]
                else:
                    keep = list(cols)
                if set(rep.keys()) != set(keep):
                    viol.append(z3.BoolVal(True))
                    continue
                for c in keep:
                    viol.append(S.term(rep[c]) != s[cols.index(c)].e)
            run.obligation(ctx, "bridge-aligned", z3.Or(viol) if viol else z3.BoolVal(False), conc)
            run.sample({"part": part, "model": pl.show(model_spec), "columns": [str(c)[:10] for c in cols], "answer": spec["answer"],
                        "path_condition": [str(z3.simplify(c)) for c in ctx.pc][:5]})

        st = S.explore(fn, on_path, max_paths=20000, wall=1500)
        return run.result(st)
    finally:
        ffi.uninstall(ns.pnd)
        npshim.uninstall(ns.pnd)


def _exact(ns, spec, run, m0, M0, cols, nodes):
    """z3's optimiser as the solver callable (bounds added as rows); optimality and model satisfaction re-decided by query"""
    rng = random.Random(spec["wseed"])
    weights = {c: rng.randint(-5, 5) for c in cols if rng.random() < 0.7}
    weights["__foreign__"] = 3
    Mi = np.asarray(M0).astype(int)
    bnds = [(int(v.bounds.lower), int(v.bounds.upper)) for v in M0.A.variables]
    g = pl.build(ns, spec["model"], {})
    safe = pl.solver_safe(ns, g)
    leaves = {k: o[0] for k, o in plh.walk(ns, g).items() if issubclass(o[0].__class__, ns.puan.variable)}

    def z3solver(P, objs):
        A = np.asarray(P.A).astype(int)
        b = np.asarray(P.b).astype(int)
        res = []
        for o in objs:
            opt = z3.Optimize()
            xs = [z3.Int("x%d" % j) for j in range(A.shape[1])]
            for j, v in enumerate(P.A.variables):
                opt.add(xs[j] >= int(v.bounds.lower), xs[j] <= int(v.bounds.upper))
            for i in range(A.shape[0]):
                opt.add(sum((int(A[i, j]) * xs[j] for j in range(A.shape[1]) if A[i, j] != 0), z3.IntVal(0)) >= int(b[i]))
            opt.maximize(sum((int(o[j]) * xs[j] for j in range(A.shape[1]) if int(o[j]) != 0), z3.IntVal(0)))
            if str(opt.check()) != "sat":
                res.append((None, None, 5))
                continue
            mm = opt.model()
            res.append((np.array([mm.eval(x, model_completion=True).as_long() for x in xs]), 0, 6))
        return res

    def fn(ctx):
        m1 = pl.build(ns, spec["model"], {})
        err = out = None
        try:
            out = list(m1.solve([dict(weights)], solver=z3solver, include_virtual_variables=True))
        except Exception as e:   # noqa
            err = "%s: %s" % (type(e).__name__, e)
        xs = [ctx.int("x%d" % j, bnds[j][0], bnds[j][1]) for j in range(len(cols))]
        for i in range(Mi.shape[0]):
            ctx.assume(sum((int(Mi[i, j + 1]) * xs[j].e for j in range(len(cols)) if Mi[i, j + 1] != 0), z3.IntVal(0)) >= int(Mi[i, 0]))
        return dict(out=out, err=err, xs=xs)

    def on_path(ctx, d):
        run.path(ctx)
        run.region("exact-solver")
        xs = d["xs"]

        def conc(m):
            return {"x": [S.model_int(m, v) for v in xs], "weights": weights}
        if d["err"] is not None:
            run.obligation(ctx, "raises", True, conc, extra=d["err"])
            return
        sol = d["out"][0][0]
        if sol == {}:
            # polyhedron infeasible according to the exact solver: then no feasible point may exist
            run.obligation(ctx, "empty-result-only-when-infeasible", z3.BoolVal(True), conc)
            return
        if set(sol.keys()) != set(cols):
            run.obligation(ctx, "reported-ids", True, conc, extra=str(sorted(map(str, sol.keys()))))
            return
        val = sum(weights.get(c, 0) * int(sol[c]) for c in cols)
        better = sum((weights.get(c, 0) * xs[j].e for j, c in enumerate(cols) if weights.get(c, 0) != 0), z3.IntVal(0)) > val
        run.obligation(ctx, "reported-solution-optimal-for-requested-weights", better, conc, extra="reported %s value %d" % ({str(k): int(v) for k, v in sol.items()}, val))
        feas_sol = all(sum(int(Mi[i, j + 1]) * int(sol[c]) for j, c in enumerate(cols)) >= int(Mi[i, 0]) for i in range(Mi.shape[0]))
        if not feas_sol:
            run.obligation(ctx, "reported-solution-feasible", True, conc)
        if safe:
            ev = pl.build(ns, spec["model"], {}).evaluate({k: int(sol[k]) for k in leaves})
            if (S.concrete(ev.lower), S.concrete(ev.upper)) != (1, 1):
                run.obligation(ctx, "reported-solution-satisfies-model", True, conc, extra="evaluates to %s" % (ev,))
        run.sample({"part": "exact", "model": pl.show(spec["model"]), "weights": {str(k): v for k, v in weights.items()}, "reported": {str(k): int(v) for k, v in sol.items()}})

    st = S.explore(fn, on_path, max_paths=10, wall=600)
    return run.result(st)
