"""C12 — bound tightening never cuts off a feasible point; row bounds are exact; combination counts."""
import random
import z3

from sx import core as S, env as E, npshim, mat

PROPERTY = "C12"
REGIONS = ["narrow-storage-dtype", "constant-column-variable-plain", "coefficient-with-inexact-reciprocal", "queries-after-tighten", "bound-tightened", "crossed-bounds", "coef-magnitude>1-positive", "coef-magnitude>1-negative", "zero-coef", "symbolic-box", "negative-lower-bound"]
BOUNDS = ("coefficient matrices up to 3x3 with entries in {-3..3} (curated + seeded; concrete because coefficient x bound products must stay linear); "
          "right-hand sides b symbolic |b|<=2^17; variable boxes symbolic inside [-32768,32767] (families: all boolean, one symbolic column, "
          "mixed, all symbolic); a symbolic in-box point x")
OUTSIDE = "larger matrices / coefficients; boxes outside the default 16-bit range; int64 wrap-around (M3); float rounding of numpy's true division beyond 2^53 (all quotients here are < 2^40)"
FAMILY = "coefficient patterns x box families"
ASSUMPTIONS = ["M1 object-dtype numpy shim (differentially validated against real int64 numpy on every run via translator validation)",
               "M2 exact rational model of numpy float division/floor/inf/nan", "M3 no int64 overflow inside the stated ranges", "M4"]


def functions(ns):
    G = ns.pnd.ge_polyhedron
    return [G.column_bounds, G.A_max, G.A_min, G.row_bounds, G.tighten_column_bounds, G.n_row_combinations, G.A, G.b]


def instantiations(tier, seed):
    rng = random.Random(seed * 601 + 7)
    out = []
    As = list(mat.CURATED_A)
    n = 12 if tier == "quick" else 250
    for _ in range(n):
        As.append(mat.random_A(rng, max_rows=2 if tier == "quick" else 3, max_cols=3))
    for k, A in enumerate(As):
        nc = len(A[0])
        kinds = [mat.BOX_KINDS[k % 4]] if tier == "quick" else ["bool", "onesym", "mixed", "allsym"]
        for kind in kinds:
            if kind == "allsym" and len(A) * nc > (4 if tier == "quick" else 6):
                kind = "onesym"
            out.append({"A": A, "boxes": mat.boxes_for(kind, nc, rng), "part": "tighten", "warm": k % 2 == 1})
        out.append({"A": A, "boxes": mat.boxes_for("mixed", nc, rng), "part": "rows"})
        if k % 2 == 0 or tier == "thorough":
            # the same queries AFTER tighten_column_bounds() was called on the same object (the accessors must keep describing the declared box)
            out.append({"A": A, "boxes": mat.boxes_for("onesym", nc, rng), "part": "rows", "after_tighten": True})
    # plain (0,1) variable on the constant column, with exactly one / two / no integer columns among the rest
    for k, A in enumerate([a for a in mat.CURATED_A if len(a[0]) >= 2][: (6 if tier == "quick" else 12)]):
        nc = len(A[0])
        bx = [[0, 1]] * nc
        for j in range(k % 3):
            bx = bx[:j] + [[[0, 5], [-3, 2], "sym"][(k + j) % 3]] + bx[j + 1:]
        out.append({"A": A, "boxes": bx, "part": "rows", "first": "plain01"})
        out.append({"A": A, "boxes": bx, "part": "tighten", "first": "plain01", "warm": k % 2 == 0})
    # storage dtype narrower than int64 (real runs only: SX's integers are unbounded); products of coefficient and bound exceed the storage type
    for k, A in enumerate([a for a in mat.CURATED_A if any(abs(v) > 1 for r in a for v in r)][: (4 if tier == "quick" else 10)]):
        nc = len(A[0])
        for part in ("rows", "tighten"):
            out.append({"A": A, "boxes": ["sym"] + [[0, 1]] * (nc - 1), "part": part, "dtype": ["int16", "int32", "astype-int16"][k % 3]})
    for A in mat.BIG_A:
        nc = len(A[0])
        out.append({"A": A, "boxes": [[0, 1]] * nc if nc == 1 else ["sym"] + [[0, 1]] * (nc - 1), "part": "tighten", "bigcoef": True})
    for mu in ("sound_strict", "rowlo_off", "nrc_off"):
        out.append({"kind": "mutant", "mutant": mu, "A": [[1, -2, 3], [2, 0, -1]], "boxes": ["sym", [0, 1], [-2, 3]],
                    "part": "tighten" if mu == "sound_strict" else "rows"})
    return out


def setup(ctx, ns, spec):
    A = spec["A"]
    nr, nc = len(A), len(A[0])
    # a polyhedron may be STORED in a narrower integer type (dtype= argument / astype): every entry and bound then fits that type
    bb = 2 ** 15 - 1 if "int16" in str(spec.get("dtype")) else 2 ** 17
    b = [ctx.int("b%d" % i, -bb, bb) for i in range(nr)]
    los, his = [], []
    for j, bx in enumerate(spec["boxes"]):
        if bx == "sym":
            l, u = ctx.int("l%d" % j, -32768, 32767), ctx.int("u%d" % j, -32768, 32767)
            ctx.assume(l.e <= u.e)
        else:
            l, u = S.K(bx[0]), S.K(bx[1])
        los.append(l)
        his.append(u)
    xs = [ctx.int("x%d" % j) for j in range(nc)]
    for x, l, u in zip(xs, los, his):
        ctx.assume(z3.And(x.e >= l.e, x.e <= u.e))
    M = npshim.obj_matrix([[b[i]] + A[i] for i in range(nr)])
    # the constant column's own variable: the library's default (id 0, fixed to 1) or, as in the library's own documentation examples, a plain
    # variable("0") with (0,1) bounds; its bounds play no role in the statement (b is a constant)
    first = ns.puan.variable("0") if spec.get("first") == "plain01" else ns.puan.variable(0, bounds=(1, 1))
    vs = [first] + [ns.puan.variable("v%d" % j, bounds=(los[j], his[j])) for j in range(nc)]
    P = ns.pnd.ge_polyhedron(M, variables=vs)
    return A, b, los, his, xs, P


def nd_warm(P):
    """call-history prefix for polyhedron objects: accessors whose results are discarded"""
    for f in ("column_bounds", "row_bounds", "to_linalg"):
        try:
            getattr(P, f)()
        except Exception:    # noqa
            pass
    for a in ("A", "b", "A_max", "A_min"):
        try:
            getattr(P, a)
        except Exception:    # noqa
            pass


def conc_inputs(m, b, los, his, xs):
    return {"b": [S.model_int(m, v) for v in b], "lo": [S.model_int(m, v) for v in los], "hi": [S.model_int(m, v) for v in his],
            "x": [S.model_int(m, v) for v in xs]}


def lin(A, i, xs):
    return sum((A[i][j] * xs[j].e for j in range(len(xs)) if A[i][j] != 0), z3.IntVal(0))


def run_inst(spec, run):
    ns = E.load_repo()
    mu = spec.get("mutant")
    npshim.install(ns.pnd)
    try:
        def fn(ctx):
            A, b, los, his, xs, P = setup(ctx, ns, spec)
            err = None
            out = {}
            try:
                if spec.get("warm"):
                    nd_warm(P)
                if spec["part"] == "tighten":
                    out["tb"] = P.tighten_column_bounds()
                else:
                    if spec.get("after_tighten"):
                        out["tb1"] = P.tighten_column_bounds()
                        P.reducable_columns_approx()
                        out["tb2"] = P.tighten_column_bounds()
                        out["cb"] = P.column_bounds()
                    out["rb"] = P.row_bounds()
                    out["nrc"] = P.n_row_combinations
            except Exception as e:   # noqa
                err = "%s: %s" % (type(e).__name__, e)
            return dict(A=A, b=b, los=los, his=his, xs=xs, out=out, err=err)

        def on_path(ctx, res):
            run.path(ctx)
            A, b, los, his, xs = res["A"], res["b"], res["los"], res["his"], res["xs"]
            nr, nc = len(A), len(xs)

            def conc(m):
                return conc_inputs(m, b, los, his, xs)
            if res["err"] is not None:
                run.obligation(ctx, "raises", True, conc, extra=res["err"])
                return
            if any(bx == "sym" for bx in spec["boxes"]):
                run.region("symbolic-box")
            if spec.get("first") == "plain01":
                run.region("constant-column-variable-plain")
            if spec.get("dtype"):
                run.region("narrow-storage-dtype")
            flat = [v for row in A for v in row]
            if any(v > 1 for v in flat):
                run.region("coef-magnitude>1-positive")
            if any(v < -1 for v in flat):
                run.region("coef-magnitude>1-negative")
            if any(v == 0 for v in flat):
                run.region("zero-coef")
            if "negative-lower-bound" not in run.regions and ctx.query(z3.Or([l.e < 0 for l in los]))[0] == "sat":
                run.region("negative-lower-bound")
            feas = z3.And([lin(A, i, xs) >= b[i].e for i in range(nr)])
            if spec["part"] == "tighten":
                tb = res["out"]["tb"]
                lb = [S.term(tb[0][j]) for j in range(nc)]
                ub = [S.term(tb[1][j]) for j in range(nc)]
                if mu == "sound_strict":
                    cut = z3.Or([z3.Or(xs[j].e <= lb[j], xs[j].e > ub[j]) for j in range(nc)])
                else:
                    cut = z3.Or([z3.Or(xs[j].e < lb[j], xs[j].e > ub[j]) for j in range(nc)])
                run.obligation(ctx, "tightened-bounds-contain-every-solution", z3.And(feas, cut), conc)
                run.obligation(ctx, "crossed-only-when-infeasible", z3.And(feas, z3.Or([lb[j] > ub[j] for j in range(nc)])), conc)
                run.obligation(ctx, "never-widens", z3.Or([z3.Or(lb[j] < los[j].e, ub[j] > his[j].e) for j in range(nc)]), conc)
                if "bound-tightened" not in run.regions and ctx.query(z3.Or([z3.Or(lb[j] > los[j].e, ub[j] < his[j].e) for j in range(nc)]))[0] == "sat":
                    run.region("bound-tightened")
                if "crossed-bounds" not in run.regions and ctx.query(z3.Or([lb[j] > ub[j] for j in range(nc)]))[0] == "sat":
                    run.region("crossed-bounds")
                edge = [l.e == -32768 for l in los if not z3.is_int_value(z3.simplify(l.e))] + [u.e == 32767 for u in his if not z3.is_int_value(z3.simplify(u.e))]
                ext = z3.Or(edge) if edge else None
                if spec.get("bigcoef"):
                    # float64 effects show where a bound divides exactly: bias the second validation sample there
                    ext = z3.Or([b[i].e % abs(A[i][j]) == 0 for i in range(nr) for j in range(nc) if abs(A[i][j]) > 3])
                    run.region("coefficient-with-inexact-reciprocal")
                run.validate(ctx, conc, lambda m: {"tb": [[S.model_int(m, v) for v in lb], [S.model_int(m, v) for v in ub]]}, extremes=ext)
            else:
                rb = res["out"]["rb"]
                nrc = res["out"]["nrc"]
                viol = []
                for i in range(nr):
                    rlo, rhi = S.term(rb[i][0]), S.term(rb[i][1])
                    v = lin(A, i, xs) - b[i].e
                    elo = sum(((A[i][j] * (los[j].e if A[i][j] > 0 else his[j].e)) for j in range(nc) if A[i][j] != 0), z3.IntVal(0)) - b[i].e
                    ehi = sum(((A[i][j] * (his[j].e if A[i][j] > 0 else los[j].e)) for j in range(nc) if A[i][j] != 0), z3.IntVal(0)) - b[i].e
                    if mu == "rowlo_off":
                        elo = elo + 1
                    viol.append(z3.Or(v < rlo, v > rhi, rlo != elo, rhi != ehi))
                run.obligation(ctx, "row-bounds-exact", z3.Or(viol), conc)
                nv = []
                for i in range(nr):
                    exp = z3.IntVal(1)
                    for j in range(nc):
                        if A[i][j] != 0:
                            exp = exp * (his[j].e - los[j].e + 1)
                    if mu == "nrc_off":
                        exp = exp + 1
                    nv.append(S.term(nrc[i]) != exp)
                run.obligation(ctx, "row-combination-counts", z3.Or(nv), conc)
                if spec.get("after_tighten"):
                    run.region("queries-after-tighten")
                    o = res["out"]
                    sv = []
                    for j in range(nc):
                        sv.append(z3.Or(S.term(o["cb"][0][j]) != los[j].e, S.term(o["cb"][1][j]) != his[j].e))
                        sv.append(z3.Or(S.term(o["tb1"][0][j]) != S.term(o["tb2"][0][j]), S.term(o["tb1"][1][j]) != S.term(o["tb2"][1][j])))
                    run.obligation(ctx, "declared-bounds-and-tightening-stable-after-tighten", z3.Or(sv), conc)
                edge = [l.e == -32768 for l in los if not z3.is_int_value(z3.simplify(l.e))] + [u.e == 32767 for u in his if not z3.is_int_value(z3.simplify(u.e))]
                run.validate(ctx, conc, lambda m: {"rb": [[S.model_int(m, rb[i][0]), S.model_int(m, rb[i][1])] for i in range(nr)],
                                                   "nrc": [S.model_int(m, nrc[i]) for i in range(nr)]}, extremes=z3.Or(edge) if edge else None)
            run.sample({"A": A, "boxes": spec["boxes"], "part": spec["part"], "path_condition": [str(z3.simplify(c)) for c in ctx.pc][:5]})

        st = S.explore(fn, on_path, max_paths=20000, wall=1500)
        return run.result(st)
    finally:
        npshim.uninstall(ns.pnd)
