"""C17 — base64 round trip reproduces propositions and configured polyhedra exactly."""
import copy
import random
import numpy as np
import z3

from sx import core as S, env as E, pl, plh, families as F, cfg, npshim, ffi, mat

PROPERTY = "C17"
REGIONS = ["plog-model", "configurator", "after-queries", "after-packing-sibling-objects", "integer-leaf", "explicit-sign", "generated-id", "cc-default", "subclass-leaf",
           "polyhedron-config", "polyhedron-default-prio-given", "polyhedron-default-prio-omitted", "polyhedron-variables-given",
           "polyhedron-index-given", "polyhedron-select"]
BOUNDS = ("PL family skeletons (<=7 compounds) with symbolic thresholds (|v|<=2^20), symbolic explicit signs, symbolic integer-leaf boxes in "
          "[-32768,32767] and symbolic in-box leaf values; CFG family configurators (concrete, with defaults and priorities), packed fresh and after a "
          "prefix of queries; ge_polyhedron_config objects built directly from <=8 symbolic entries (|e|<=2^31), symbolic variable boxes, a symbolic "
          "or omitted default priority vector, given or generated variables / row index. pickle, gzip and base64 run for real on the object graph "
          "(M11: a symbolic integer travels through pickle as an opaque token)")
OUTSIDE = ("larger models; floats; strings produced by another version of the library or another Python; select() with the built-in solver is "
           "compared in the plain-interpreter runs only (concrete)")
FAMILY = "curated + seeded PL skeletons (plain, subclass leaves, str leaves) + CFG configurators x {fresh, after queries}; matrix family x {prio given, omitted} x {variables given, generated}"
ASSUMPTIONS = ["M1", "M4", "M5 structural", "M6", "M8 (select part)", "M11: pickle transports Python ints unchanged; symbolic integers are carried as opaque tokens by the real pickle/gzip/base64 pipeline"]


def functions(ns):
    return [ns.pg.AtLeast.to_b64, ns.pg.from_b64, ns.pnd.ge_polyhedron_config.to_b64, ns.pnd.ge_polyhedron_config.from_b64,
            ns.pnd.ge_polyhedron_config.__new__, ns.pnd.variable_ndarray.__new__, ns.pnd.variable_ndarray.__array_finalize__,
            ns.pg.AtLeast.evaluate_propositions, ns.pnd.ge_polyhedron_config.select]


def instantiations(tier, seed):
    rng = random.Random(seed * 1709 + 3)
    out = []
    skels = F.pl_family(tier, seed, n_quick=30, n_thorough=250)
    skels += [F.AL(0, F.a(), F.b(), id="A", sign=1), F.AL(0, F.a(), F.b(), sign=1), F.N("Not", F.AM(-1, F.c(), F.d())),
              F.N("Imply", F.N("All", F.a(), F.b()), F.c(), id="R"), F.N("XNor", F.N("All", F.a(), F.b(), id="B"), F.N("Any", F.c(), F.d(), id="C")),
              F.N("All", F.N("Any", F.a()), F.N("All", F.b()), F.AM(0, F.c()), id="A")]
    for k, sk in enumerate(skels):
        names = F.ALT_NAMES[(k + seed) % len(F.ALT_NAMES)]
        m = F.rename(F.symbolize(sk), names)
        if k % 4 == 2:
            for c in pl.compounds(m):
                for ch in c["ch"]:
                    if ch["t"] == "var" and (ch.get("lo", 0), ch.get("hi", 1)) == (0, 1):
                        ch["str"] = True
        if k % 4 == 3:
            m = F.with_subclass_leaves(m)
        out.append({"part": "plog", "model": m, "kind_": "plog", "warm": k % 2 == 1})
        if k % 2 == 0 or tier == "thorough":
            out.append({"part": "plog", "model": m, "kind_": "plog", "warm": False, "siblings": True})
    for k, c in enumerate(cfg.cfg_family(tier, seed, n_quick=12, n_thorough=100)):
        out.append({"part": "plog", "model": c, "kind_": "cfg", "warm": k % 2 == 0})
        out.append({"part": "plog", "model": c, "kind_": "cfg", "warm": False, "siblings": True})
        c2 = copy.deepcopy(c)
        for nd in pl.compounds(c2):
            if nd["t"] in ("cAny", "cXor") and rng.random() < 0.5:
                nd["id"] = None
        c2["id"] = None if rng.random() < 0.5 else c2["id"]
        out.append({"part": "plog", "model": c2, "kind_": "cfg", "warm": k % 2 == 1})
    mats = [a for a in mat.CURATED_A if sum(len(r) for r in a) <= (6 if tier == "quick" else 8) and len(a[0]) >= 2]
    n_rand = 4 if tier == "quick" else 60
    for _ in range(n_rand):
        A_ = mat.random_A(rng, max_rows=2 if tier == "quick" else 3, max_cols=3)
        if len(A_[0]) >= 2:       # a polyhedron needs the constant column and at least one variable column
            mats.append(A_)
    for k, A in enumerate(mats):
        out.append({"part": "poly", "shape": [len(A), len(A[0])], "prio": ["sym", "omitted", "zeros"][k % 3], "vars": ["given", "generated"][k % 2],
                    "index": ["given", "generated", "ints"][(k // 2) % 3], "select": k % 3 != 0, "warm": k % 4 == 1, "edge": [7, 15, 31][k % 3]})
    base = F.symbolize(F.AL(2, F.a(), F.i(), F.AL(1, F.b(), F.c(), id="B", sign=1), id="A", sign=1))
    for mu in ("value_off", "bounds_off"):
        out.append({"kind": "mutant", "mutant": mu, "part": "plog", "model": base, "kind_": "plog", "warm": False})
    out.append({"kind": "mutant", "mutant": "entry_off", "part": "poly", "shape": [1, 3], "prio": "sym", "vars": "given", "index": "given", "select": False, "warm": False})
    return out


def _siblings(ns, spec):
    """objects that compare equal (==, hash) to the model, or nearly so, but differ in something the comparison ignores: a longer default list,
    an explicit id equal to the generated one, a nested threshold moved between -1 and -2; packed BEFORE the model in the same interpreter"""
    from sx import poly
    out = []
    s1 = copy.deepcopy(spec)
    changed = False
    for nd in pl.compounds(s1):
        if nd["t"] in ("cAny", "cXor") and nd.get("default"):
            other = [c["id"] for c in nd["ch"] if c.get("id") and c["id"] not in nd["default"]]
            if other:
                nd["default"] = list(nd["default"]) + other[:1]
                changed = True
    if changed:
        out.append(s1)
    try:
        rep = pl.build(ns, spec, plh.mid_env(spec))
        if spec["t"] != "var" and not spec.get("id") and rep.generated_id and not pl.params(spec):
            out.append(dict(copy.deepcopy(spec), id=rep.id))
    except Exception:   # noqa
        pass
    out.extend(poly.siblings(spec, limit=3))
    return out


# ----------------------------------------------------------------------------------------------------------------------------------
# structural comparison of two object graphs (original, unpacked); symbolic fields are compared by the solver, the rest directly

def compare(ns, a, b, path, sym, hard):
    if type(a) is not type(b):
        hard.append("%s: class %s became %s" % (path, type(a).__name__, type(b).__name__))
        return
    if a.id != b.id:
        hard.append("%s: id %r became %r" % (path, a.id, b.id))
    sym.append(("%s.bounds" % path, S.term(a.bounds.lower), S.term(b.bounds.lower)))
    sym.append(("%s.bounds" % path, S.term(a.bounds.upper), S.term(b.bounds.upper)))
    if issubclass(a.__class__, ns.puan.variable):
        return
    if bool(a.generated_id) != bool(b.generated_id):
        hard.append("%s: generated_id %s became %s" % (path, a.generated_id, b.generated_id))
    sym.append(("%s.value" % path, S.term(a.value), S.term(b.value)))
    sym.append(("%s.sign" % path, S.term(a.sign), S.term(b.sign)))
    da = [getattr(v, "id", v) for v in (getattr(a, "default", None) or [])]
    db = [getattr(v, "id", v) for v in (getattr(b, "default", None) or [])]
    if da != db:
        hard.append("%s: default %s became %s" % (path, da, db))
    if hasattr(a, "default_prios") or hasattr(b, "default_prios"):
        try:
            if a.default_prios != b.default_prios:
                hard.append("%s: default_prios differ" % path)
        except Exception as e:   # noqa
            hard.append("%s: default_prios raised %s" % (path, type(e).__name__))
    pa, pb = list(a.propositions), list(b.propositions)
    if len(pa) != len(pb):
        hard.append("%s: %d children became %d" % (path, len(pa), len(pb)))
        return
    for k, (x, y) in enumerate(zip(pa, pb)):
        compare(ns, x, y, "%s/%s" % (path, getattr(x, "id", k)), sym, hard)


def run_inst(spec, run):
    ns = E.load_repo()
    if spec["part"] == "poly":
        return _poly(ns, spec, run)
    if spec.get("siblings"):
        spec["before"] = _siblings(ns, spec["model"])
        if not spec["before"]:
            return run.skipped("no sibling object to pack first")
    mu = spec.get("mutant")
    model_spec = spec["model"]
    iscfg = spec["kind_"] == "cfg"
    try:
        rep = pl.build(ns, model_spec, plh.mid_env(model_spec))
    except Exception as e:   # noqa
        return run.skipped("constructor rejects the instantiation: %s" % type(e).__name__)
    if rep.errors() != []:
        return run.skipped("model fails the repository's own validation (errors() != [])")
    leaves_spec = pl.leaves(model_spec)

    def fn(ctx):
        env = plh.sym_env(ctx, model_spec)
        vals = plh.leaf_syms(ctx, model_spec, env)
        zvals = {k: v.e for k, v in vals.items()}
        m0 = pl.build(ns, model_spec, env)
        ref = pl.obj_sem(ns, m0, zvals)
        m1 = pl.build(ns, model_spec, env)
        err = s = m2 = val = r0 = r2 = None
        stage = "packing sibling objects first"
        try:
            for sb in spec.get("before", []):
                pl.build(ns, sb, env).to_b64()
            stage = "queries before packing"
            if spec.get("warm"):
                plh.warm(ns, m1)
                if iscfg:
                    m1.ge_polyhedron
            stage = "to_b64"
            s = m1.to_b64()
            stage = "from_b64"
            m2 = ns.pg.from_b64(s)
            stage = "evaluate"
            val = m2.evaluate(dict(vals))
            stage = "evaluate_propositions"
            r0 = m0.evaluate_propositions(dict(vals))
            r2 = m2.evaluate_propositions(dict(vals))
        except Exception as e:   # noqa
            err = "%s in %s: %s" % (type(e).__name__, stage, e)
        return dict(env=env, vals=vals, ref=ref, m0=m0, m1=m1, s=s, m2=m2, val=val, r0=r0, r2=r2, err=err)

    def on_path(ctx, d):
        run.path(ctx)
        env, vals = d["env"], d["vals"]

        def conc(m):
            return {"env": plh.conc_env(m, env), "vals": plh.conc_vals(m, vals)}
        run.region("configurator" if iscfg else "plog-model")
        if spec.get("warm"):
            run.region("after-queries")
        if spec.get("before"):
            run.region("after-packing-sibling-objects")
        for c in pl.compounds(model_spec):
            if c["t"] in ("cAny", "cXor") and c.get("default"):
                run.region("cc-default")
            if c["t"] == "AtLeast" and c.get("sign") is not None:
                run.region("explicit-sign")
            if not c.get("id"):
                run.region("generated-id")
            if any(ch.get("sub") for ch in c["ch"]):
                run.region("subclass-leaf")
        if any(b != (0, 1) for b in leaves_spec.values()):
            run.region("integer-leaf")
        if d["err"] is not None:
            run.obligation(ctx, "raises", True, conc, extra=d["err"])
            return
        m0, m2, val = d["m0"], d["m2"], d["val"]
        if not isinstance(d["s"], str):
            run.obligation(ctx, "packed-form-is-str", True, conc, extra="to_b64 returned %s" % type(d["s"]).__name__)
        sym, hard = [], []
        compare(ns, m0, m2, "top", sym, hard)
        if hard:
            run.obligation(ctx, "structure", True, conc, extra="; ".join(hard[:4]))
        sv = [(a + 1 if mu == "bounds_off" and w.endswith(".bounds") else a) != b for (w, a, b) in sym]
        run.obligation(ctx, "same-values-signs-bounds", z3.Or(sv) if sv else z3.BoolVal(False), conc,
                       extra=lambda mm: "; ".join("%s %s became %s" % (w, S.model_int(mm, a), S.model_int(mm, b)) for (w, a, b) in sym
                                                  if S.model_int(mm, a) != S.model_int(mm, b))[:300])
        want = d["ref"]
        if mu == "value_off":
            want = 1 - want
        run.obligation(ctx, "meaning-preserved", z3.Or(S.term(val.lower) != want, S.term(val.upper) != want), conc)
        r0, r2 = d["r0"], d["r2"]
        if set(r0) != set(r2):
            run.obligation(ctx, "evaluate_propositions-ids", True, conc, extra="ids %s vs %s" % (sorted(map(str, r0))[:6], sorted(map(str, r2))[:6]))
        else:
            ev = [z3.Or(S.term(r0[k].lower) != S.term(r2[k].lower), S.term(r0[k].upper) != S.term(r2[k].upper)) for k in r0]
            run.obligation(ctx, "evaluate_propositions-identical", z3.Or(ev) if ev else z3.BoolVal(False), conc)
        if iscfg:
            cv = []
            try:
                P0, P2 = m0.ge_polyhedron, m2.ge_polyhedron
                if np.asarray(P0).tolist() != np.asarray(P2).tolist() or [v.id for v in P0.variables] != [v.id for v in P2.variables] or \
                        [(int(v.bounds.lower), int(v.bounds.upper)) for v in P0.variables] != [(int(v.bounds.lower), int(v.bounds.upper)) for v in P2.variables] or \
                        list(P0.default_prio_vector) != list(P2.default_prio_vector):
                    cv.append("configurator polyhedron differs after the round trip")
            except Exception as e:   # noqa
                cv.append("raised %s: %s" % (type(e).__name__, e))
            if cv:
                run.obligation(ctx, "configurator-polyhedron", True, conc, extra="; ".join(cv))
        run.validate(ctx, conc, lambda m: {"val": [S.model_int(m, val.lower), S.model_int(m, val.upper)],
                                           "props": {str(k): [S.model_int(m, b.lower), S.model_int(m, b.upper)] for k, b in r2.items()} if not ctx.str_calls else None},
                     extremes=plh.extremes(env))
        run.sample({"model": pl.show(model_spec), "b64_chars": len(d["s"]), "path_condition": [str(z3.simplify(c)) for c in ctx.pc][:5]})

    st = S.explore(fn, on_path, max_paths=20000, wall=2400)
    return run.result(st)


# ----------------------------------------------------------------------------------------------------------------------------------

def _edge(ent, k):
    """z3 Bool: the largest magnitude in the matrix is exactly 2^k and occurs with a positive sign (where a narrower integer type would wrap)"""
    flat = [e.e for row in ent for e in row]
    return z3.Or([z3.And([x == 2 ** k] + [z3.And(y < 2 ** k, y > -(2 ** k)) for y in flat if y is not x]) for x in flat])


def _poly(ns, spec, run):
    mu = spec.get("mutant")
    pnd, puan = ns.pnd, ns.puan
    r, c = spec["shape"]
    npshim.install(pnd)
    ffi.install(pnd)
    try:
        def fn(ctx):
            ent = [[ctx.int("e_%d_%d" % (i, j), -2 ** 31, 2 ** 31) for j in range(c)] for i in range(r)]
            kw = {}
            bx = []
            if spec["vars"] == "given":
                vs = [puan.variable(0, bounds=(1, 1))]
                for j in range(1, c):
                    lo, hi = ctx.int("lo_%d" % j, plh.LO16, plh.HI16), ctx.int("hi_%d" % j, plh.LO16, plh.HI16)
                    ctx.assume(lo.e <= hi.e)
                    bx.append((lo, hi))
                    vs.append(puan.variable("x%d" % j, bounds=(lo, hi)))
                kw["variables"] = vs
            if spec["index"] == "given":
                kw["index"] = [puan.variable("row%d" % i) for i in range(r)]
            elif spec["index"] == "ints":
                kw["index"] = list(range(10, 10 + r))
            dp = None
            if spec["prio"] == "sym":
                dp = [ctx.int("d_%d" % j, -20, 20) for j in range(c - 1)]
                kw["default_prio_vector"] = npshim.obj_vector(dp)
            elif spec["prio"] == "zeros":
                kw["default_prio_vector"] = npshim.obj_vector([0] * (c - 1))
            err = P = P2 = s = sel0 = sel2 = None
            stage = "construct"
            try:
                P = pnd.ge_polyhedron_config(npshim.obj_matrix(ent), **kw)
                if spec.get("warm"):
                    P.A, P.b, P.column_bounds(), P.row_bounds()
                stage = "to_b64"
                s = P.to_b64()
                stage = "from_b64"
                P2 = pnd.ge_polyhedron_config.from_b64(s)
                if spec.get("select") and c > 1:
                    stage = "select"
                    key = P.A.variables[0].id
                    solver = lambda poly, objs: [(np.array(list(o), dtype=object), 0, 5) for o in objs]
                    sel0 = list(P.select({key: 1}, solver=solver))
                    sel2 = list(P2.select({key: 1}, solver=solver))
            except Exception as e:   # noqa
                err = "%s in %s: %s" % (type(e).__name__, stage, e)
            return dict(ent=ent, bx=bx, dp=dp, P=P, P2=P2, s=s, err=err, sel0=sel0, sel2=sel2)

        def on_path(ctx, d):
            run.path(ctx)
            run.region("polyhedron-config")
            run.region({"sym": "polyhedron-default-prio-given", "zeros": "polyhedron-default-prio-given", "omitted": "polyhedron-default-prio-omitted"}[spec["prio"]])
            if spec["vars"] == "given":
                run.region("polyhedron-variables-given")
            if spec["index"] != "generated":
                run.region("polyhedron-index-given")

            def conc(m):
                return {"entries": [[S.model_int(m, e) for e in row] for row in d["ent"]], "boxes": [[S.model_int(m, a), S.model_int(m, b)] for a, b in d["bx"]],
                        "prio": None if d["dp"] is None else [S.model_int(m, x) for x in d["dp"]]}
            if d["err"] is not None:
                if " in construct: " in d["err"]:
                    run.notes.append({"note": "constructor rejects the instantiation (not the round trip): " + d["err"]})
                    return
                run.obligation(ctx, "raises", True, conc, extra=d["err"])
                return
            P, P2 = d["P"], d["P2"]
            hard, sym = [], []
            if type(P2) is not type(P):
                hard.append("class %s became %s" % (type(P).__name__, type(P2).__name__))
            if P.shape != P2.shape:
                hard.append("shape %s became %s" % (P.shape, P2.shape))
            else:
                for i in range(r):
                    for j in range(c):
                        sym.append(("entry[%d,%d]" % (i, j), S.term(P[i, j]) + (1 if mu == "entry_off" and (i, j) == (0, 1) else 0), S.term(P2[i, j])))
            for nm in ("variables", "index"):
                va, vb = list(getattr(P, nm)), list(getattr(P2, nm))
                if len(va) != len(vb):
                    hard.append("%s: %d became %d" % (nm, len(va), len(vb)))
                    continue
                for x, y in zip(va, vb):
                    if type(x) is not type(y) or getattr(x, "id", x) != getattr(y, "id", y):
                        hard.append("%s: %r became %r" % (nm, x, y))
                    elif hasattr(x, "bounds"):
                        sym.append(("%s %s lower" % (nm, x.id), S.term(x.bounds.lower), S.term(y.bounds.lower)))
                        sym.append(("%s %s upper" % (nm, x.id), S.term(x.bounds.upper), S.term(y.bounds.upper)))
            da, db = list(P.default_prio_vector), list(P2.default_prio_vector)
            if len(da) != len(db):
                hard.append("default_prio_vector length %d became %d" % (len(da), len(db)))
            else:
                for j, (x, y) in enumerate(zip(da, db)):
                    sym.append(("default_prio_vector[%d]" % j, S.term(x), S.term(y)))
            if hard:
                run.obligation(ctx, "polyhedron-structure", True, conc, extra="; ".join(hard[:4]))
            sv = [a != b for (_, a, b) in sym]
            run.obligation(ctx, "polyhedron-identical", z3.Or(sv) if sv else z3.BoolVal(False), conc,
                           extra=lambda mm: "; ".join("%s %s became %s" % (w, S.model_int(mm, a), S.model_int(mm, b)) for (w, a, b) in sym
                                                      if S.model_int(mm, a) != S.model_int(mm, b))[:300])
            if d["sel0"] is not None:
                run.region("polyhedron-select")
                s0, s2 = d["sel0"], d["sel2"]
                sel = []
                bad = None
                if len(s0) != len(s2):
                    bad = "select returned %d vs %d answers" % (len(s0), len(s2))
                else:
                    for (x0, z0, c0), (x2, z2, c2) in zip(s0, s2):
                        if (x0 is None) != (x2 is None) or (x0 is not None and list(x0.keys()) != list(x2.keys())) or c0 != c2:
                            bad = "select answers differ in ids/status"
                            break
                        for k in (x0 or {}):
                            sel.append(S.term(x0[k]) != S.term(x2[k]))
                if bad:
                    run.obligation(ctx, "select-identical", True, conc, extra=bad)
                else:
                    run.obligation(ctx, "select-identical", z3.Or(sel) if sel else z3.BoolVal(False), conc)
            run.validate(ctx, conc, lambda m: {"entries": [[S.model_int(m, P2[i, j]) for j in range(c)] for i in range(r)],
                                               "prio": [S.model_int(m, x) for x in db]},
                         extremes=_edge(d["ent"], spec.get("edge", 7)))
            run.sample({"shape": [r, c], "prio": spec["prio"], "vars": spec["vars"], "index": spec["index"], "b64_chars": len(d["s"])})

        st = S.explore(fn, on_path, max_paths=20000, wall=1200)
        return run.result(st)
    finally:
        ffi.uninstall(pnd)
