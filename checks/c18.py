"""C18 — extending a configurator equals building it with the extra rule."""
import copy
import random
import numpy as np
import z3

from sx import core as S, env as E, pl, plh, cfg, families as F


def _clear_caches(ns_):
    """empty the configurator-level caches if the current tree has any (lru_cache on the class, pinned tree); a no-op for per-instance caches"""
    for name in ("ge_polyhedron", "leafs"):
        f = ns_.cc.StingyConfigurator.__dict__.get(name)
        f = getattr(f, "fget", f)
        cc_ = getattr(f, "cache_clear", None)
        if cc_ is not None:
            cc_()

PROPERTY = "C18"
REGIONS = ["generated-configurator-id", "one-addition", "two-additions", "three-additions", "added-defaulted-rule", "added-imply-rule", "clash-with-rule-id", "clash-with-item-id",
           "symbolic-threshold", "original-unchanged-checked"]
BOUNDS = ("CFG family configurators (explicit configurator id) x sequences of <=3 added rules drawn from {plain AtLeast/AtMost/Any/All/Xor rule, defaulted cc.Any/cc.Xor, "
          "Imply}; thresholds/signs of explicitly named AtLeast/AtMost nodes in old and new rules symbolic (|v|<=2^20); the added rule's id is fresh, or equals an "
          "existing top-level rule id, or an existing top-level item id; polyhedron / default priorities / select answers compared on a concrete representative of every path")
OUTSIDE = ("longer histories; for configurators created without an id the reference object is built with the original auto-generated id given explicitly "
           "(direct construction without an id would generate a different one)")
FAMILY = "configurators x addition sequences x id-clash selector"
ASSUMPTIONS = ["M4", "M5 structural", "M6", "M7 (polyhedron on representatives)", "honest note (DESIGN.md): the solver's share is thin here: equalities between parameter terms; "
               "value lies in the clash selector, history bound and the frame check"]


def functions(ns):
    return [ns.cc.StingyConfigurator.add, ns.cc.StingyConfigurator.__init__, ns.pg.All.__init__, ns.pg.AtLeast.__init__, ns.cc.StingyConfigurator.default_prios,
            ns.pg.AtLeast.flatten]


def _new_rules(rng, k0):
    V = F.V
    pool = [
        lambda i: F.AL(2, V("n1"), V("n2"), V("a"), id="N%d" % i, sign=1),
        lambda i: F.AM(1, V("n1"), V("b"), id="N%d" % i),
        lambda i: F.N("Any", V("n3"), V("c"), id="N%d" % i),
        lambda i: cfg.cAny(V("n1"), V("n4"), V("a"), id="N%d" % i, default=["n4"]),
        lambda i: cfg.cXor(V("n2"), V("n5"), id="N%d" % i, default=["n2"]),
        lambda i: F.N("Imply", V("a"), F.N("All", V("n1"), V("n6"), id="Q%d" % i), id="N%d" % i),
        lambda i: F.N("Imply", F.N("Any", V("b"), V("n2"), id="P%d" % i), cfg.cXor(V("n7"), V("n8"), id="Q%d" % i, default=["n8"]), id="N%d" % i),
    ]
    return [pool[(k0 + j) % len(pool)](j) for j in range(3)]


def instantiations(tier, seed):
    rng = random.Random(seed * 1511 + 3)
    out = []
    cfgs = cfg.cfg_family(tier, seed, n_quick=24, n_thorough=300)
    for k, c in enumerate(cfgs):
        c = F.symbolize(c)
        nr = _new_rules(rng, k)
        nadd = 1 + k % 3
        added = [F.symbolize(r) for r in nr[:nadd]]
        out.append({"model": c, "added": added, "clash": None})
        if k % 2 == 1:
            # configurator created without an id: add() must keep the (auto-generated) id too; the reference is built with that id given explicitly
            cg = copy.deepcopy(c)
            cg["id"] = None
            out.append({"model": cg, "added": added, "clash": None, "genid": True})
        tops = [r for r in c["ch"]]
        rule_ids = [r["id"] for r in tops if r["t"] != "var" and r.get("id")]
        if rule_ids and k % 2 == 0:
            a2 = copy.deepcopy(added)
            a2[-1]["id"] = rule_ids[0]
            out.append({"model": c, "added": a2, "clash": "rule"})
    # rules that are groups without an id of their own (pg.All over named rules, also nested), added first or present from the start, then
    # extended further; and the same id-less group added twice (same generated id: the second addition must be refused)
    V = F.V

    def grp(i):
        return F.N("All", F.N("All", F.N("Any", V("g1"), V("g2"), id="G%da" % i), F.N("Any", V("g3"), V("c"), id="G%db" % i)), F.AM(1, V("g4"), V("b"), id="G%dc" % i))
    plain = lambda i: F.N("Any", V("n3"), V("c"), id="N%d" % i)     # noqa
    for k, c in enumerate(cfgs[:2 if tier == "quick" else 12]):
        c = F.symbolize(c)
        out.append({"model": c, "added": [grp(0), plain(1)], "clash": None})
        out.append({"model": c, "added": [plain(0), grp(1), plain(2)], "clash": None})
        cb = copy.deepcopy(c)
        cb["ch"] = list(cb["ch"]) + [grp(5)]
        out.append({"model": cb, "added": [plain(0), plain(1)], "clash": None})
        out.append({"model": c, "added": [grp(0), grp(0)], "clash": "rule"})
        out.append({"model": c, "added": [F.N("All", plain(3), F.AM(1, V("g4"), V("b"), id="G9"))], "clash": None})
    # an id-less added rule over exactly the non-default alternatives of a defaulted rule: its generated id coincides with the id of the helper
    # group the defaulted rule created (which carries the lowered prio tag); add() must resolve that like direct construction does
    for k, c in enumerate(cfgs):
        for (node, d, comp) in cfg.defaulted(c)[:2]:
            for t in ("Any", "Xor"):
                out.append({"model": F.symbolize(c), "added": [F.N(t, *[V(i) for i in comp])], "clash": None})
                if k % 3 == 0:
                    out.append({"model": F.symbolize(c), "added": [plain(0), F.N(t, *[V(i) for i in comp]), plain(2)], "clash": None})
    # a configurator that names a top-level item twice, as plain id strings (errors() complains about it, add() must still agree with
    # direct construction: C18 is not restricted to validated configurators)
    dup = cfg.SC(dict(F.V("x"), str=True), dict(F.V("x"), str=True), dict(F.V("y"), str=True), cfg.cXor(F.V("p"), F.V("q"), id="X", default=["p"]))
    out.append({"model": dup, "added": [plain(0)], "clash": None, "allow_invalid": True})
    out.append({"model": dup, "added": [plain(0), F.N("Imply", F.V("x"), F.N("All", F.V("n1"), F.V("n6"), id="Q1"), id="N1")], "clash": None, "allow_invalid": True})
    strn = cfg.SC(dict(F.V("n"), str=True), cfg.cXor(F.V("p"), F.V("q"), id="X", default=["p"]))
    out.append({"model": strn, "added": [F.N("Imply", F.V("p"), F.AL(2, F.V("n", 0, 3), F.V("m"), id="Q1", sign=1), id="N1")], "clash": None, "allow_invalid": True})
    out.append({"model": strn, "added": [plain(0), F.AL(2, F.V("n", 0, 3), F.V("m"), id="N2", sign=1)], "clash": None, "allow_invalid": True})
    # top-level items: configurators given plain items at the top level
    c = cfg.SC(F.V("a"), F.V("b"), cfg.cXor(F.V("x"), F.V("y"), id="X", default=["x"]))
    out.append({"model": c, "added": [F.N("Any", F.V("n1"), F.V("n2"), id="a")], "clash": "item"})
    out.append({"model": c, "added": [F.N("Any", F.V("n1"), F.V("n2"), id="N0")], "clash": None})
    for mu in ("forgot_rule", "clash_ignored"):
        out.append({"kind": "mutant", "mutant": mu, "model": F.symbolize(cfgs[0]), "added": [F.symbolize(_new_rules(rng, 0)[0])], "clash": None if mu == "forgot_rule" else "rule"})
    return out


def snap(ns, node):
    """deep structural snapshot with z3 terms for numeric fields (compared with z3 equalities)"""
    if issubclass(node.__class__, ns.puan.variable):
        return ("var", node.id, S.term(node.bounds.lower), S.term(node.bounds.upper))
    return ("cmp", type(node).__name__, node.id, bool(node.generated_id), S.term(node.sign), S.term(node.value), S.term(node.bounds.lower), S.term(node.bounds.upper),
            getattr(node, "prio", None), tuple(v.id for v in getattr(node, "default", []) or []), tuple(snap(ns, c) for c in node.propositions))


def snap_diff(a, b):
    """z3 Bool: snapshots differ"""
    if a[0] != b[0] or len(a) != len(b):
        return z3.BoolVal(True)
    out = []
    for x, y in zip(a, b):
        if isinstance(x, z3.ExprRef) or isinstance(y, z3.ExprRef):
            out.append(x != y)
        elif isinstance(x, tuple) and x and isinstance(x[0], tuple):
            if len(x) != len(y):
                return z3.BoolVal(True)
            out.extend(snap_diff(p, q) for p, q in zip(x, y))
        elif x != y:
            return z3.BoolVal(True)
    return z3.simplify(z3.Or(out)) if out else z3.BoolVal(False)


def run_inst(spec, run):
    ns = E.load_repo()
    mu = spec.get("mutant")
    base, added, clash = spec["model"], spec["added"], spec["clash"]
    if clash == "rule" and mu == "clash_ignored":
        added = copy.deepcopy(added)
        added[-1]["id"] = [r["id"] for r in base["ch"] if r["t"] != "var" and r.get("id")][0]
    allspec = {"t": "SC", "id": base["id"], "ch": list(base["ch"]) + list(added)}
    direct_spec = allspec if mu != "forgot_rule" else {"t": "SC", "id": base["id"], "ch": list(base["ch"])}
    try:
        rep = pl.build(ns, {"t": "SC", "id": base["id"], "ch": list(base["ch"])}, plh.mid_env(allspec))
        for r in added:
            pl.build(ns, r, plh.mid_env(allspec))
    except Exception as e:   # noqa
        return run.skipped("constructor rejects the instantiation: %s" % type(e).__name__)
    if rep.errors() != [] and not spec.get("allow_invalid"):
        return run.skipped("base configurator fails validation")

    def fn(ctx):
        env = plh.sym_env(ctx, allspec)
        _clear_caches(ns)
        c0 = pl.build(ns, base, env)
        s_before = snap(ns, c0)
        cur = c0
        raised = None
        steps = []
        for r in added:
            obj = pl.build(ns, r, env)
            try:
                cur = cur.add(obj)
                steps.append(snap(ns, cur))
            except Exception as e:    # noqa
                raised = "%s: %s" % (type(e).__name__, e)
                break
        s_after = snap(ns, c0)
        dspec = dict(direct_spec, id=c0.id) if spec.get("genid") else direct_spec
        direct = pl.build(ns, dspec, env) if (clash is None or mu == "clash_ignored") else None
        return dict(env=env, c0=c0, cur=cur, raised=raised, s_before=s_before, s_after=s_after, direct=direct)

    def on_path(ctx, d):
        run.path(ctx)
        env = d["env"]

        def conc(m):
            return {"env": plh.conc_env(m, env)}
        run.region({1: "one-addition", 2: "two-additions", 3: "three-additions"}[len(added)])
        if any(r["t"] in ("cAny", "cXor") for r in added):
            run.region("added-defaulted-rule")
        if any(r["t"] == "Imply" for r in added):
            run.region("added-imply-rule")
        if env:
            run.region("symbolic-threshold")
        run.region("original-unchanged-checked")
        run.obligation(ctx, "original-unchanged", snap_diff(d["s_before"], d["s_after"]), conc)
        if clash is not None and mu != "clash_ignored":
            run.region("clash-with-rule-id" if clash == "rule" else "clash-with-item-id")
            run.obligation(ctx, "clash-refused", d["raised"] is None, conc, extra="no exception although the id names an existing top-level proposition")
            return
        if d["raised"] is not None:
            run.obligation(ctx, "raises-without-clash", True, conc, extra=d["raised"])
            return
        cur, direct = d["cur"], d["direct"]
        run.obligation(ctx, "same-structure-as-direct-construction", snap_diff(snap(ns, cur), snap(ns, direct)), conc)
        run.obligation(ctx, "id-kept", cur.id != d["c0"].id, conc)
        if spec.get("genid"):
            run.region("generated-configurator-id")
        # representative: default priorities, polyhedron
        ctx._ensure_model()
        cenv = plh.conc_env(ctx.model, env)
        try:
            _clear_caches(ns)
            a = pl.build(ns, base, cenv)
            for r in added:
                # the configurator is queried before it is extended: nothing cached on it may leak into the extension
                a.ge_polyhedron
                a.leafs()
                a.default_prios
                a = a.add(pl.build(ns, r, cenv))
            b = pl.build(ns, dict(direct_spec, id=pl.build(ns, base, cenv).id) if spec.get("genid") else direct_spec, cenv)
            bad = []
            if a.default_prios != b.default_prios:
                bad.append("default_prios differ")
            _clear_caches(ns)
            Pa = a.ge_polyhedron
            _clear_caches(ns)
            Pb = b.ge_polyhedron
            if np.asarray(Pa).tolist() != np.asarray(Pb).tolist() or [v.id for v in Pa.variables] != [v.id for v in Pb.variables] \
                    or list(Pa.default_prio_vector) != list(Pb.default_prio_vector):
                bad.append("polyhedron differs")
        except Exception as e:   # noqa
            bad = ["raised %s: %s" % (type(e).__name__, e)]
        if bad:
            run.obligation(ctx, "same-prios-and-polyhedron", True, lambda m: {"env": cenv}, extra="; ".join(bad))
        run.sample({"base": pl.show(base), "added": [pl.show(r) for r in added], "clash": clash, "path_condition": [str(z3.simplify(c)) for c in ctx.pc][:5]})

    st = S.explore(fn, on_path, max_paths=30000, wall=2400)
    return run.result(st)
