"""C05 — negation is the exact complement and stays in solver-safe form."""
import random
import z3

from sx import core as S, env as E, pl, plh, families as F, known

PROPERTY = "C05"
REGIONS = ["second-negation-of-safe-intermediate", "not-of-atom", "double-negation", "atoms-only", "compounds-only", "mixed", "negative-node", "integer-leaf", "explicit-id-kept", "via-Not"]
BOUNDS = ("PL family skeletons (<=7 compounds, depth<=3); value/sign of explicitly named AtLeast/AtMost nodes symbolic "
          "(|v|<=2^20); integer-leaf boxes symbolic in [-32768,32767]; leaf values symbolic in-box")
OUTSIDE = "larger skeletons; symbolic thresholds on generated-id nodes (M6); the open known-finding class (negate on positive mixed node)"
FAMILY = "curated + seeded PL skeletons x {negate(), Not()} x leaf-name assignments; Not(atom) for variable / str / subclass atoms with a symbolic box"
ASSUMPTIONS = ["M4", "M5 structural", "M6", "evaluate() itself is the subject of C03; here its result on the negation is compared with 1 - reference truth of the original"]


def functions(ns):
    return [ns.pg.AtLeast.negate, ns.pg.Not.__new__, ns.pg.AtLeast.__init__, ns.pg.AtLeast.evaluate, ns.pg.AtLeast.assume]


def instantiations(tier, seed):
    out = []
    skels = F.pl_family(tier, seed, n_quick=100, n_thorough=1000)
    extra = [
        F.N("All", F.a(), F.b(), F.N("Any", F.c(), F.d(), id="B"), id="A"),
        F.AL(2, F.a(), F.b(), F.AL(1, F.c(), F.d(), id="B", sign=1), F.AM(1, F.c(), F.a(), id="C"), id="A", sign=1),
        F.AL(1, F.i(), F.AL(1, F.c(), F.d(), id="B", sign=1), id="A", sign=1),
        F.N("Any", F.N("All", F.a(), F.N("Any", F.b(), F.c(), id="C"), id="B"), F.d(), id="A"),
    ]
    for k, sk in enumerate(extra + skels):
        if sk["t"] == "Not":
            continue
        names = F.ALT_NAMES[(k + seed) % len(F.ALT_NAMES)]
        m = F.rename(F.symbolize(sk), names)
        out.append({"model": m, "via": "Not" if k % 3 == 0 else "negate", "warm": k % 3 == 1})
        if k % 4 == 2:
            # explicit ids that look like generated ones ("VAR..."), and a chain of two negations
            mv = F.rename(m, {c["id"]: "VAR" + str(c["id"]) for c in pl.compounds(m) if c.get("id")})
            out.append({"model": mv, "via": "negate", "chain": 2})
            out.append({"model": m, "via": "Not", "chain": 2})
    for k, sk in enumerate([F.AM(1, F.N("Any", F.a(), F.b(), id="B"), F.N("Any", F.c(), F.d(), id="C"), id="A"),
                            F.AL(0, F.AL(1, F.a(), F.b(), id="B", sign=1), F.AL(1, F.c(), F.d(), id="C", sign=1), id="A", sign=-1),
                            F.N("Xor", F.N("All", F.a(), F.b(), id="B"), F.N("Any", F.c(), F.d(), id="C"), id="A"),
                            F.AM(0, F.N("All", F.a(), F.b(), id="B"), id="A")]):
        # negatively signed parents over named compounds: not solver-safe themselves, their negation is; chains of two negations
        m = F.rename(sk, F.ALT_NAMES[(k + seed) % len(F.ALT_NAMES)])
        for via in ("Not", "negate"):
            out.append({"model": m, "via": via, "chain": 2})
    # Not applied to an atom (documented as the complement of All(atom), i.e. of "atom >= 1"): boolean / str / integer atoms with any box
    for k, (form, chain) in enumerate([("variable", 1), ("variable", 2), ("str", 1), ("subclass", 1)]):
        out.append({"part": "atom", "form": form, "chain": chain, "model": F.N("All", F.V("q", "$lo_q", "$hi_q")), "via": "Not"})
    base = F.symbolize(F.AL(2, F.a(), F.b(), F.c(), id="A", sign=1))
    for mu in ("no_complement", "off_by_one"):
        out.append({"kind": "mutant", "mutant": mu, "model": base, "via": "negate"})
    return out


def _atom(ns, spec, run):
    from sx import plspec

    def fn(ctx):
        if spec["form"] == "str":
            lo, hi = S.K(0), S.K(1)
        else:
            lo, hi = ctx.int("lo_q", plh.LO16, plh.HI16), ctx.int("hi_q", plh.LO16, plh.HI16)
            ctx.assume(lo.e <= hi.e)
        x = ctx.int("x_q")
        ctx.assume(z3.And(x.e >= lo.e, x.e <= hi.e))
        cls = plspec._item_class(ns.puan) if spec["form"] == "subclass" else ns.puan.variable
        leaf = "q" if spec["form"] == "str" else cls("q", bounds=(lo, hi))
        err = val = neg = None
        try:
            neg = ns.pg.Not(leaf)
            if spec["chain"] == 2:
                neg = ns.pg.Not(neg)
            val = neg.evaluate({"q": x})
        except Exception as e:   # noqa
            err = "%s: %s" % (type(e).__name__, e)
        return dict(lo=lo, hi=hi, x=x, val=val, err=err, neg=neg)

    def on_path(ctx, d):
        run.path(ctx)
        run.region("not-of-atom")
        run.region("via-Not")

        def conc(m):
            return {"env": {"lo_q": S.model_int(m, d["lo"]), "hi_q": S.model_int(m, d["hi"])}, "vals": {"q": S.model_int(m, d["x"])}}
        if d["err"] is not None:
            run.obligation(ctx, "raises", True, conc, extra=d["err"])
            return
        holds = pl._I(d["x"].e >= 1)                # All(atom): atom >= 1
        want = (1 - holds) if spec["chain"] == 1 else holds
        if spec["chain"] == 2:
            run.region("double-negation")
        if spec["form"] != "str":
            run.region("integer-leaf")
        val = d["val"]
        run.obligation(ctx, "complement", z3.Or(S.term(val.lower) != want, S.term(val.upper) != want), conc)
        ext = z3.Or(d["lo"].e == plh.LO16, d["hi"].e == plh.HI16, d["lo"].e == 1, d["x"].e == 0) if spec["form"] != "str" else None
        run.validate(ctx, conc, lambda m: {"neg": [S.model_int(m, val.lower), S.model_int(m, val.upper)]}, extremes=ext)
        run.sample({"model": "Not(q)", "form": spec["form"], "chain": spec["chain"], "negation": repr(d["neg"])[:200]})
    st = S.explore(fn, on_path, max_paths=2000, wall=600)
    return run.result(st)


def run_inst(spec, run):
    ns = E.load_repo()
    if spec.get("part") == "atom":
        return _atom(ns, spec, run)
    model_spec = spec["model"]
    mu = spec.get("mutant")
    rep = pl.build(ns, model_spec, plh.mid_env(model_spec))
    if rep.errors() != []:
        return run.skipped("model fails the repository's own validation (errors() != [])")
    all_bool = all((lo, hi) == (0, 1) for lo, hi in pl.leaves(model_spec).values())

    def fn(ctx):
        env = plh.sym_env(ctx, model_spec)
        vals = plh.leaf_syms(ctx, model_spec, env)
        zvals = {k: v.e for k, v in vals.items()}
        m0 = pl.build(ns, model_spec, env)
        ref = pl.obj_sem(ns, m0, zvals)
        kn = known.negate_mixed(ns, m0)
        if spec.get("chain", 1) == 2:
            try:
                kn = z3.Or(kn, known.negate_mixed(ns, pl.build(ns, model_spec, env).negate()))
            except Exception:    # noqa
                pass
        safe0 = pl.solver_safe(ns, m0)
        atoms = [c for c in m0.propositions if issubclass(c.__class__, ns.puan.variable)]
        shape = "atoms-only" if len(atoms) == len(m0.propositions) else ("compounds-only" if not atoms else "mixed")
        m1 = pl.build(ns, model_spec, env)
        err = None
        neg = val = None
        try:
            if spec.get("warm"):
                plh.warm(ns, m1)
            neg = ns.pg.Not(m1) if spec["via"] == "Not" else m1.negate()
            midsafe = None
            if spec.get("chain", 1) == 2:
                mid_ = neg
                midsafe = pl.solver_safe(ns, mid_)
                neg = ns.pg.Not(mid_) if spec["via"] == "Not" else mid_.negate()
            val = neg.evaluate(dict(vals))
        except Exception as e:     # noqa
            err = "%s: %s" % (type(e).__name__, e)
        return dict(env=env, vals=vals, ref=ref, kn=kn, neg=neg, val=val, err=err, safe0=safe0, shape=shape, midsafe=locals().get("midsafe"),
                    m0sign=S.concrete(m0.sign), gen=m0.generated_id, mid=m0.id)

    def on_path(ctx, res):
        run.path(ctx)
        env, vals = res["env"], res["vals"]

        def conc(m):
            return {"env": plh.conc_env(m, env), "vals": plh.conc_vals(m, vals)}
        kn = {"negate-mixed": res["kn"]}
        if res["err"] is not None:
            run.obligation(ctx, "raises", True, conc, known=kn, extra=res["err"])
            return
        run.region(res["shape"])
        if any(v == -1 for v in ctx.fixed.values()):
            run.region("negative-node")
        if not all_bool:
            run.region("integer-leaf")
        if spec["via"] == "Not":
            run.region("via-Not")
        want = 1 - res["ref"] if spec.get("chain", 1) == 1 else res["ref"]
        if spec.get("chain", 1) == 2:
            run.region("double-negation")
        if mu == "no_complement":
            want = res["ref"]
        if mu == "off_by_one":
            want = z3.If(res["ref"] == 1, z3.IntVal(0), z3.IntVal(2))
        val = res["val"]
        run.obligation(ctx, "complement", z3.Or(S.term(val.lower) != want, S.term(val.upper) != want), conc, known=kn)
        neg = res["neg"]
        if not res["gen"]:
            run.region("explicit-id-kept")
            run.obligation(ctx, "id-kept", neg.id != res["mid"], conc)
        if all_bool and res["safe0"]:
            run.obligation(ctx, "solver-safe", not pl.solver_safe(ns, neg), conc)
        if all_bool and res["midsafe"]:
            # second step of a chain: the once-negated model is solver-safe, so negating IT must give a solver-safe model again
            run.region("second-negation-of-safe-intermediate")
            run.obligation(ctx, "solver-safe-second-step", not pl.solver_safe(ns, neg), conc)
        run.validate(ctx, conc, lambda m: {"neg": [S.model_int(m, val.lower), S.model_int(m, val.upper)], "negid": neg.id}, extremes=plh.extremes(env), known=kn)
        run.sample({"model": pl.show(model_spec), "via": spec["via"], "path_condition": [str(z3.simplify(c)) for c in ctx.pc][:6],
                    "negation": repr(neg)[:200]})

    st = S.explore(fn, on_path, max_paths=30000, wall=2400)
    return run.result(st)
