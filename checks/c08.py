"""C08 — reduce() preserves meaning and removes every fixed variable."""
import copy
import random
import z3

from sx import core as S, env as E, pl, plh, families as F

PROPERTY = "C08"
REGIONS = ["childless-compound-not-prefixed", "leaf-fixed-by-bounds", "compound-fixed-by-bounds", "after-assume", "collapsed-to-constant", "nothing-fixed", "integer-leaf", "negative-sign"]
BOUNDS = ("PL family skeletons (<=7 compounds); thresholds/signs symbolic on named nodes (|v|<=2^20); every leaf box symbolic "
          "(booleans: inside [0,1], so 'is it fixed' is the fork lower==upper; integers: inside [-32768,32767]); compound variable bounds "
          "(0,1)/(0,0)/(1,1) per instantiation; optional assume() with symbolic presence/constants on <=2 ids before reduce(); values of all "
          "leaves symbolic in-box")
OUTSIDE = "larger skeletons; compound bounds as symbolic selector (instantiated instead); non-constant assumptions"
FAMILY = "curated + seeded PL skeletons x compound-bounds patterns x optional assume step"
ASSUMPTIONS = ["M4", "M5 structural", "M6", "M10"]


def functions(ns):
    A = ns.pg.AtLeast
    return [A.reduce, A.assume, A.evaluate, A.flatten, ns.puan.Bounds.constant]


def _boolsym(spec, limit=3):
    """(up to `limit`) boolean leaves get a symbolic box inside [0,1]"""
    s = copy.deepcopy(spec)
    chosen = [l for l, b in pl.leaves(s).items() if b == (0, 1)][:limit]

    def go(n):
        if n["t"] == "var":
            if (n.get("lo", 0), n.get("hi", 1)) == (0, 1) and n["id"] in chosen:
                n["lo"], n["hi"] = "$lo_" + n["id"], "$hi_" + n["id"]
                n["boolbox"] = True
        for c in n.get("ch", []):
            go(c)
    go(s)
    return s


def _symthr(spec):
    """thresholds/signs of named cardinality nodes symbolic, declared leaf boxes kept as written"""
    s = copy.deepcopy(spec)
    for c in pl.compounds(s):
        if c["t"] == "AtLeast" and c.get("id"):
            c["value"], c["sign"] = "$v_" + c["id"], "$s_" + c["id"]
        if c["t"] == "AtMost" and c.get("id"):
            c["value"] = "$v_" + c["id"]
    return s


def instantiations(tier, seed):
    rng = random.Random(seed * 307 + 11)
    out = []
    skels = F.pl_family(tier, seed, n_quick=15, n_thorough=250)
    for k, sk in enumerate(skels):
        names = F.ALT_NAMES[(k + seed) % len(F.ALT_NAMES)]
        heavy = len(pl.compounds(sk)) >= 4 or any(c["t"] in ("XNor", "Xor") and any(ch["t"] != "var" for ch in c["ch"]) for c in pl.compounds(sk))
        m = _boolsym(F.rename(F.symbolize(sk), names), (2 if heavy else 3) if tier == "quick" else (3 if heavy else 5))
        ids = pl.explicit_ids(m)
        # pre-fix some named compounds by bounds
        if ids and k % 3 != 0:
            for c in pl.compounds(m):
                if c.get("id") and c["t"] != "Not" and rng.random() < 0.4:
                    c["vb"] = rng.choice([[0, 0], [1, 1], [0, 1]])
        pool = list(pl.leaves(m)) + ids
        assumed = rng.sample(pool, min(2, len(pool))) if k % 2 == 1 else []
        out.append({"model": m, "assumed": assumed, "warm": k % 3 == 1, "aform": ["int", "tuple", "bounds"][(k // 2) % 3]})
    # reduce() called directly on the logical connectives' own classes (a subclass may override reduce) with integer leaves that can be
    # negative next to leaves that can be fixed to true: no pre-fixed compound, no assume step
    for k, sk in enumerate([F.N("Any", F.j(), F.a(), id="A"), F.N("All", F.N("Any", F.j(), F.a(), F.b(), id="B"), F.c(), id="A"),
                            F.N("Imply", F.a(), F.N("Any", F.i(), F.b(), id="C"), id="A"), F.N("Xor", F.j(), F.a(), F.b(), id="A"),
                            F.N("All", F.i(), F.a(), id="A"), F.N("XNor", F.j(), F.a(), id="A"),
                            F.N("Any", F.N("All", F.i(), F.a(), id="B"), F.N("Any", F.j(), F.b()), id="A"),
                            # compounds without sub-propositions (validation accepts them), not pre-fixed: reduce() must turn them into their constant
                            F.N("Any", F.a(), F.N("Any", id="E"), id="A"), F.N("All", F.N("Any", F.a(), F.N("All", id="E"), id="B"), F.b(), id="A"),
                            F.N("All", F.N("Any", F.b(), F.AL(1, id="E", sign=1), id="B"), F.AM(1, F.a(), F.N("Any", id="F"), id="C"), id="A"),
                            F.N("Imply", F.N("All", id="E"), F.a(), id="A"),
                            # cardinality nodes with 1 < k < n over many leaves: fixed children TRUE, FALSE, TRUE in id order leave the node undecided
                            F.AL(3, F.a(), F.b(), F.c(), F.d(), id="A", sign=1), F.N("All", F.AM(2, F.a(), F.b(), F.c(), F.d(), F.V("e"), id="B"), F.V("f"), id="A"),
                            F.AL(3, F.a(), F.b(), F.c(), F.d(), F.V("e"), id="A", sign=1),
                            # the same with the fixed pattern written into the declared bounds (plain ints: containers keyed by a constant
                            # then behave exactly as in CPython, which structural hash tokens of symbolic bounds do not reproduce)
                            ]):
        m = _boolsym(F.rename(F.symbolize(sk), F.ALT_NAMES[(k + seed) % len(F.ALT_NAMES)]), 3)
        out.append({"model": m, "assumed": [], "warm": k % 2 == 1})
    # the same with the fixed pattern written into the declared bounds (plain ints: containers keyed by a constant then behave exactly as in
    # CPython, which structural hash tokens of symbolic bounds do not reproduce); ids not renamed, so the pattern keeps its id order
    for k, sk in enumerate([F.AL(3, F.V("a", 1, 1), F.V("b", 0, 0), F.V("c", 1, 1), F.d(), F.V("e"), id="A", sign=1),
                            F.N("All", F.AM(2, F.V("a", 1, 1), F.V("b", 0, 0), F.V("c", 1, 1), F.d(), F.V("e"), id="B"), F.V("f"), id="A"),
                            F.AL(2, F.V("a", 0, 0), F.V("b", 1, 1), F.V("c", 0, 0), F.V("c2", 2, 2), F.d(), F.V("e"), id="A", sign=1)]):
        out.append({"model": _boolsym(_symthr(sk), 2), "assumed": [], "warm": k % 2 == 1})
    base = _boolsym(F.symbolize(F.AL(2, F.a(), F.i(), F.AL(1, F.b(), F.c(), id="B", sign=1), id="A", sign=1)))
    for mu in ("ignore_constants", "allow_fixed"):
        out.append({"kind": "mutant", "mutant": mu, "model": base, "assumed": []})
    return out


def boolboxes(spec, acc=None):
    acc = set() if acc is None else acc
    if spec["t"] == "var" and spec.get("boolbox"):
        acc.add(spec["id"])
    for c in spec.get("ch", []):
        boolboxes(c, acc)
    return acc


def run_inst(spec, run):
    ns = E.load_repo()
    model_spec = spec["model"]
    mu = spec.get("mutant")
    bb = boolboxes(model_spec)
    rep_env = plh.mid_env(model_spec)
    for l in bb:
        rep_env["lo_" + l], rep_env["hi_" + l] = 0, 1
    try:
        rep = pl.build(ns, model_spec, rep_env)
    except Exception as e:   # noqa
        return run.skipped("constructor rejects the skeleton: %s" % type(e).__name__)
    if rep.errors() != []:
        return run.skipped("model fails the repository's own validation (errors() != [])")
    leaves = pl.leaves(model_spec)
    cids = set(pl.explicit_ids(model_spec))

    def fn(ctx):
        env = plh.sym_env(ctx, model_spec)
        for l in bb:
            ctx.assume(z3.And(env["lo_" + l].e >= 0, env["hi_" + l].e <= 1))
        x = plh.leaf_syms(ctx, model_spec, env)
        zx = {k: v.e for k, v in x.items()}
        m0 = pl.build(ns, model_spec, env)
        fent, fixed, pres = {}, {}, {}
        for a in spec["assumed"]:
            p = ctx.bool("p_" + a)
            if a in leaves:
                o = x[a]          # the assumed constant is the leaf's value
            else:
                o = ctx.int("o_" + a, 0, 1)
                fixed[a] = (lambda r, p=p, o=o: z3.If(p.e, o.e, r))
            fent[a] = (p, plh.form(ns, spec.get("aform", "int"), o))     # the constant as int, (v, v) tuple or Bounds(v, v)
            pres[a] = (p, o)
        ref = pl.obj_sem(ns, m0, zx, fixed)
        m1 = pl.build(ns, model_spec, env)
        err = red = val = None
        f1 = E.SymDict(fent)
        try:
            if spec.get("warm"):
                plh.warm(ns, m1)
            base = m1.assume(f1) if spec["assumed"] else m1
            # assume() may already collapse the whole model into a single constant puan.variable, which has no
            # reduce(): nothing is left to reduce (the property is about AtLeast.reduce)
            red = base.reduce() if hasattr(base, "reduce") else base
            val = red.evaluate(dict(x))
        except Exception as e:   # noqa
            err = "%s: %s" % (type(e).__name__, e)
        return dict(env=env, x=x, pres=pres, ref=ref, red=red, val=val, err=err, f1=f1)

    def on_path(ctx, res):
        run.path(ctx)
        env, x, pres = res["env"], res["x"], res["pres"]

        def conc(m):
            return {"env": plh.conc_env(m, env), "x": plh.conc_vals(m, x),
                    "assume": {k: [bool(S.model_int(m, p.e)), S.model_int(m, o)] for k, (p, o) in pres.items()}}
        if res["err"] is not None:
            run.obligation(ctx, "raises", True, conc, extra=res["err"])
            return
        red, val = res["red"], res["val"]
        if any(res["f1"].decided.values()):
            run.region("after-assume")
        if any(v == -1 for k, v in ctx.fixed.items()):
            run.region("negative-sign")
        if any(not c.get("boolbox") and True for c in [] ):
            pass
        if any(l not in bb for l in leaves):
            run.region("integer-leaf")
        for c in pl.compounds(model_spec):
            if not c["ch"] and c.get("vb") in (None, [0, 1]) and c.get("id") not in spec["assumed"]:
                run.region("childless-compound-not-prefixed")
            if c.get("vb") in ([0, 0], [1, 1]):
                run.region("compound-fixed-by-bounds")
        if "leaf-fixed-by-bounds" not in run.regions or "nothing-fixed" not in run.regions:
            anyfixed = z3.Or([S.term(pl.P(env, lo)) == S.term(pl.P(env, hi)) for lo, hi in leaves.values()])
            r1, _ = ctx.query(anyfixed)
            if r1 == "sat":
                run.region("leaf-fixed-by-bounds")
            r1, _ = ctx.query(z3.Not(anyfixed))
            if r1 == "sat" and not any(c.get("vb") in ([0, 0], [1, 1]) for c in pl.compounds(model_spec)):
                run.region("nothing-fixed")
        want = res["ref"]
        if mu == "ignore_constants":
            want = pl.obj_sem(ns, res["red"], {k: v.e for k, v in x.items()}) if False else 1 - want
        run.obligation(ctx, "meaning-preserved", z3.Or(S.term(val.lower) != want, S.term(val.upper) != want), conc)
        single = issubclass(red.__class__, ns.puan.variable)
        if single:
            run.region("collapsed-to-constant")
        else:
            sv = []
            for nd in red.flatten():
                lo, hi = S.term(nd.bounds.lower), S.term(nd.bounds.upper)
                sv.append(lo == hi if mu != "allow_fixed" else lo <= hi)
            run.obligation(ctx, "no-fixed-variable-left", z3.Or(sv), conc)
        run.validate(ctx, conc, lambda m: {"val": [S.model_int(m, val.lower), S.model_int(m, val.upper)], "single": single}, extremes=plh.extremes(env))
        run.sample({"model": pl.show(model_spec), "assumed": spec["assumed"], "path_condition": [str(z3.simplify(c)) for c in ctx.pc][:6],
                    "reduced": repr(red)[:200]})

    st = S.explore(fn, on_path, max_paths=30000, wall=2400)
    return run.result(st)
