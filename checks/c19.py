"""C19 — point classification agrees with A x >= b in every input shape."""
import itertools
import random
import numpy as np
import z3

from sx import core as S, env as E, npshim

PROPERTY = "C19"
REGIONS = ["row-sums-above-2^53", "points-of-library-array-class", "bulk-group", "no-rows", "points-dtype-unsigned", "points-dtype-signed-narrow", "edited-in-place-between-calls", "ndim1", "ndim2", "ndim3", "symbolic-matrix", "concrete-matrix", "satisfied-true", "satisfied-false"]
BOUNDS = ("rows<=3, columns<=3, points per group<=3, groups<=2; fully symbolic matrix entries, right-hand sides and coordinates with |.|<=20 "
          "for shapes up to 2x2 with <=2 points (products are symbolic x symbolic: QF_NIA, but oracle and code share the same product terms); "
          "larger shapes use concrete matrices over {-2..2} with symbolic b and symbolic points; wide family: concrete coefficients around 2^26, "
          "symbolic points |.|<=2^26 and right-hand sides |.|<=2^62 (all row sums inside int64)")
OUTSIDE = "larger shapes; values beyond +-20 for the fully symbolic family; values beyond the wide family's ranges; int64 overflow"
FAMILY = "shapes x {symbolic matrix, concrete matrix} x points.ndim in {1,2,3} x {ineqs_satisfied, separable, ineq_separate_points}"
ASSUMPTIONS = ["M1 numpy object-dtype shim (numpy.matmul/dot on object arrays are real numpy)", "M3"]
FUNS = ["ineqs_satisfied", "separable", "ineq_separate_points"]


def functions(ns):
    G = ns.pnd.ge_polyhedron
    return [G.ineqs_satisfied, G.separable, G.ineq_separate_points, G.to_linalg, G.A, G.b]


def instantiations(tier, seed):
    rng = random.Random(seed * 811 + 5)
    out = []
    shapes = [(1, 1), (1, 2), (2, 1), (2, 2)] if tier == "quick" else [(1, 1), (1, 2), (2, 1), (2, 2), (1, 3), (3, 1)]
    for (r, c) in shapes:
        for nd in (1, 2, 3):
            for fn in FUNS:
                out.append({"rows": r, "cols": c, "ndim": nd, "npts": 1 if nd == 1 else 2, "ngroups": 2 if nd == 3 else 1, "fn": fn, "A": None})
    big = [(2, 3), (3, 2), (3, 3)]
    n = 4 if tier == "quick" else 40
    for k in range(n):
        r, c = big[k % 3]
        A = [[rng.randint(-2, 2) for _ in range(c)] for _ in range(r)]
        for fn in FUNS:
            nd = 1 + (k + FUNS.index(fn)) % 3
            # every (row, point) comparison is a fork: keep rows*points*groups <= 8 (quick) / 10 (thorough)
            budget = 8 if tier == "quick" else 10
            ngr = 2 if nd == 3 else 1
            npt = 1 if nd == 1 else max(1, min(rng.choice([2, 3]), budget // (r * ngr)))
            if r * npt * ngr > budget:
                ngr = 1
            out.append({"rows": r, "cols": c, "ndim": nd, "npts": npt, "ngroups": ngr, "fn": fn, "A": A})
    # the points array may come in any integer dtype (compact uint8 0/1 configurations, int8, int32): same symbolic run, the real runs use that dtype
    for pd in ("uint8", "uint16", "int8", "int32", "uint64"):
        for fn in FUNS:
            nd = 1 + (len(pd) + FUNS.index(fn)) % 3
            out.append({"rows": 2, "cols": 2, "ndim": nd, "npts": 1 if nd == 1 else 2, "ngroups": 2 if nd == 3 else 1, "fn": fn, "A": [[1, 1], [-1, -1]], "pdtype": pd})
    # points handed over as instances of the library's own ndarray subclasses (results of from_list / get_neighbourhood, integer_ndarray(...))
    for pc in ("integer_ndarray", "boolean_ndarray", "variable_ndarray"):
        for fn in FUNS:
            nd = 1 + (len(pc) + FUNS.index(fn)) % 3
            out.append({"rows": 2, "cols": 3, "ndim": nd, "npts": 1, "ngroups": 2 if nd == 3 else 1, "fn": fn, "A": [[1, 0, 0], [-1, 1, 0]], "pclass": pc})
    # the polyhedron is an ndarray: it may be edited in place between two calls; the second call must describe the edited matrix
    for (r, c) in [(1, 2), (2, 2)]:
        for fn in FUNS:
            for nd in (1, 2):
                out.append({"rows": r, "cols": c, "ndim": nd, "npts": 1 if nd == 1 else 2, "ngroups": 1, "fn": fn, "A": None, "edit": True})
    # a polyhedron without rows (what remains after every row was reduced away): every point satisfies it
    for nd in (1, 2, 3):
        for fn in FUNS:
            out.append({"rows": 0, "cols": 2, "ndim": nd, "npts": 1 if nd == 1 else 2, "ngroups": 2 if nd == 3 else 1, "fn": fn, "A": None})
    # bulk input: groups of thousands of points (sizes around powers of two), the interesting points at the very end of the group
    for k, n_ in enumerate([2049] if tier == "quick" else [1023, 1025, 2047, 2049, 2500, 4097, 8193]):
        for fn in FUNS:
            out.append({"rows": 2, "cols": 2, "ndim": 2 + (k + FUNS.index(fn)) % 2, "npts": n_, "ngroups": 1, "fn": fn, "A": [[1, 1], [-1, -2]], "bulk": True})
    # wide values: concrete coefficients around 2^26, symbolic points up to 2^26 and right-hand sides up to 2^62, so that row sums exceed 2^53
    # (every value and every row sum stays inside int64; double precision is exact only below 2^53). The symbolic run is the same linear
    # one; the real int64 runs are biased to rows that hold or fail by exactly one at an odd right-hand side above 2^53
    for k, A in enumerate([[[2 ** 26 + 1, 2 ** 26 + 3]], [[2 ** 26 + 1, 1], [-(2 ** 26) - 5, -(2 ** 26) - 1]], [[2 ** 26 + 1, 2 ** 26 - 1, 3]]]):
        for fn in FUNS:
            nd = 1 + (k + FUNS.index(fn)) % 3
            out.append({"rows": len(A), "cols": len(A[0]), "ndim": nd, "npts": 1 if nd == 1 else 2, "ngroups": 2 if nd == 3 else 1, "fn": fn, "A": A, "wide": True})
    for mu in ("all_as_any", "ge_as_gt"):
        out.append({"kind": "mutant", "mutant": mu, "rows": 2, "cols": 2, "ndim": 2, "npts": 2, "ngroups": 1, "fn": "ineqs_satisfied", "A": None})
    return out


def run_inst(spec, run):
    ns = E.load_repo()
    mu = spec.get("mutant")
    r, c, nd, npts, ng = spec["rows"], spec["cols"], spec["ndim"], spec["npts"], spec["ngroups"]
    npshim.install(ns.pnd)
    try:
        def fn(ctx):
            if spec["A"] is None:
                A = [[ctx.int("a%d%d" % (i, j), -20, 20) for j in range(c)] for i in range(r)]
            else:
                A = [[S.K(v) for v in row] for row in spec["A"]]
            b = [ctx.int("b%d" % i, -20, 20) if not spec.get("wide") else ctx.int("b%d" % i, -2 ** 62, 2 ** 62) for i in range(r)]
            plo, phi = (0, 20) if str(spec.get("pdtype", "")).startswith("u") else (-20, 20)
            if spec.get("wide"):
                plo, phi = -2 ** 26, 2 ** 26
            if spec.get("bulk"):
                # a large group: many copies of one symbolic point followed by two other symbolic points (only the tail can differ)
                base = [[ctx.int("p0_%d_%d" % (k, j), plo, phi) for j in range(c)] for k in range(3)]
                pts = [[base[0]] * (npts - 2) + [base[1], base[2]] for g in range(ng)]
            else:
                pts = [[[ctx.int("p%d_%d_%d" % (g, k, j), plo, phi) for j in range(c)] for k in range(npts)] for g in range(ng)]
            M = npshim.obj_matrix([[b[i]] + A[i] for i in range(r)]) if r else np.empty((0, c + 1), dtype=object)
            P = ns.pnd.ge_polyhedron(M)
            if nd == 1:
                arr = npshim.obj_vector(pts[0][0])
            elif nd == 2:
                arr = npshim.obj_matrix(pts[0])
            else:
                arr = np.empty((ng, npts, c), dtype=object)
                for g in range(ng):
                    for k in range(npts):
                        for j in range(c):
                            arr[g, k, j] = pts[g][k][j]
            if spec.get("pclass"):
                # the points are one of the library's own array classes (with their auto-generated variables), not a plain numpy array
                arr = getattr(ns.pnd, spec["pclass"])(arr)
            err = res = None
            try:
                if spec.get("edit"):
                    for f_ in FUNS:
                        getattr(P, f_)(arr)           # first round of calls on the original content
                    P.to_linalg()
                    nb = ctx.int("nb0", -20, 20)
                    na = ctx.int("na", -20, 20)
                    P[0, 0] = nb
                    P[r - 1, c] = na
                    b = [nb] + b[1:]
                    A = [list(row) for row in A]
                    A[r - 1][c - 1] = na
                res = getattr(P, spec["fn"])(arr)
            except Exception as e:    # noqa
                err = "%s: %s" % (type(e).__name__, e)
            return dict(A=A, b=b, pts=pts, res=res, err=err)

        def on_path(ctx, rs):
            run.path(ctx)
            A, b, pts = rs["A"], rs["b"], rs["pts"]

            def conc(m):
                return {"A": [[S.model_int(m, v) for v in row] for row in A], "b": [S.model_int(m, v) for v in b],
                        "pts": [[[S.model_int(m, v) for v in p] for p in grp] for grp in pts]}
            if rs["err"] is not None:
                run.obligation(ctx, "raises", True, conc, extra=rs["err"])
                return
            run.region("ndim%d" % nd)
            if r == 0:
                run.region("no-rows")
            if spec.get("bulk"):
                run.region("bulk-group")
            if spec.get("pclass"):
                run.region("points-of-library-array-class")
            if spec.get("pdtype"):
                run.region("points-dtype-" + ("unsigned" if spec["pdtype"].startswith("u") else "signed-narrow"))
            if spec.get("edit"):
                run.region("edited-in-place-between-calls")
            run.region("symbolic-matrix" if spec["A"] is None else "concrete-matrix")

            def rowok(i, p):
                lhs = z3.IntVal(0)
                for j in range(c):
                    lhs = lhs + A[i][j].e * p[j].e
                return (lhs > b[i].e) if mu == "ge_as_gt" else (lhs >= b[i].e)

            def sat(p):
                fs = [rowok(i, p) for i in range(r)]
                return z3.Or(fs) if mu == "all_as_any" else z3.And(fs)
            res = np.asarray(rs["res"])
            viol = []
            seen = set()
            shape_ok = True
            if spec["fn"] in ("ineqs_satisfied", "separable"):
                want_shape = {1: (), 2: (npts,), 3: (ng, npts)}[nd]
                if tuple(res.shape) != want_shape:
                    shape_ok = False
                else:
                    for g in range(ng):
                        for k in range(npts):
                            got = res[()] if nd == 1 else (res[k] if nd == 2 else res[g, k])
                            got = bool(got)
                            if got:
                                run.region("satisfied-true" if spec["fn"] == "ineqs_satisfied" else "satisfied-false")
                            else:
                                run.region("satisfied-false" if spec["fn"] == "ineqs_satisfied" else "satisfied-true")
                            key_ = (id(pts[g][k]), got)
                            if key_ in seen:          # the same point object with the same answer: the same obligation
                                continue
                            seen.add(key_)
                            exp = sat(pts[g][k]) if spec["fn"] == "ineqs_satisfied" else z3.Not(sat(pts[g][k]))
                            viol.append(exp != z3.BoolVal(got))
            else:
                want_shape = {1: (r,), 2: (r,), 3: (ng, r)}[nd]
                if tuple(res.shape) != want_shape:
                    shape_ok = False
                else:
                    for g in range(ng):
                        for i in range(r):
                            got = bool(res[i] if nd < 3 else res[g, i])
                            uniq = list({id(p): p for p in pts[g]}.values())
                            exp = z3.Or([z3.Not(rowok(i, p)) for p in uniq])
                            viol.append(exp != z3.BoolVal(got))
            if not shape_ok:
                run.obligation(ctx, "output-shape", True, conc, extra="shape %s" % (res.shape,))
                return
            run.obligation(ctx, "classification", z3.Or(viol), conc)
            ext = None
            if spec.get("pdtype"):
                ext = z3.Or([z3.Or(b[i].e > 0, b[i].e < 0) for i in range(r)])      # rows with a non-zero right-hand side
            if spec.get("wide"):
                run.region("row-sums-above-2^53")
                lhs = lambda i, p: sum((A[i][j].e * p[j].e for j in range(c)), z3.IntVal(0))     # noqa
                allp = [p for grp in pts for p in grp]
                ext = z3.Or([z3.And(z3.Or(lhs(i, p) == b[i].e - 1, lhs(i, p) == b[i].e), z3.Or(b[i].e > 2 ** 53 + 4, b[i].e < -(2 ** 53) - 4), b[i].e % 4 == 1)
                             for i in range(r) for p in allp])
            run.validate(ctx, conc, lambda m: {"res": np.asarray(res).astype(int).tolist()}, extremes=ext)
            run.sample({"shape": [r, c], "ndim": nd, "fn": spec["fn"], "A": spec["A"] or "symbolic", "path_condition": [str(z3.simplify(x)) for x in ctx.pc][:4]})

        st = S.explore(fn, on_path, max_paths=20000, wall=900, timeout_ms=60000)
        return run.result(st)
    finally:
        npshim.uninstall(ns.pnd)
