"""C09 — queries are pure and results are independent of call history."""
import copy
import random
import numpy as np
import z3

from sx import core as S, env as E, pl, plh, cfg, families as F, poly
from checks.c18 import snap, snap_diff


def _clear_caches(ns_):
    """empty the configurator-level caches if the current tree has any (lru_cache on the class, pinned tree); a no-op for per-instance caches"""
    for name in ("ge_polyhedron", "leafs"):
        f = ns_.cc.StingyConfigurator.__dict__.get(name)
        f = getattr(f, "fget", f)
        cc_ = getattr(f, "cache_clear", None)
        if cc_ is not None:
            cc_()

PROPERTY = "C09"
PL_OPS = ["evaluate", "evaluate_propositions", "assume", "reduce", "negate", "errors", "flatten", "to_json", "to_b64", "to_text", "to_short", "to_ge_polyhedron", "solve"]
CFG_OPS = ["select", "add", "default_prios", "leafs", "ge_polyhedron", "to_json", "to_b64", "evaluate"]
REGIONS = ["repeat-with-the-same-dictionary-edited-in-place", "repeat-evaluate", "repeat-with-equal-hash-different-value", "prefixed-subproposition", "subclass-leaves", "history:add", "history:assume", "history:negate", "history:reduce", "history-cfg", "history-plog"] + ["op:" + o for o in PL_OPS] + ["cfg-op:" + o for o in CFG_OPS] + ["interpretation-names-compound-id", "interpretation-names-top-id", "cache-key-equal-possible"]
BOUNDS = ("one call of each public operation from a freshly built model (PL family, <=7 compounds) or configurator (CFG family), with symbolic thresholds/signs/boxes "
          "where the operation does not cross the Rust encoder, and symbolic arguments: dictionaries over ALL ids (leaves, sub-propositions, the top id) with symbolic "
          "presence flags and values; a deep snapshot (class, id, generated flag, bounds, value, sign, prio, default, children) is compared before/after. "
          "Because an unchanged snapshot plus deterministic code gives identical later answers, the one-step frame condition covers call sequences of any length. "
          "Cross-object independence: two configurators of one skeleton with independent symbolic item boxes; the lru_cache key (AtLeast.__hash__/__eq__) is executed "
          "with hash values as z3 terms (explicit CPython int-hash model, tuple hash injective)")
OUTSIDE = "mutation of argument objects; threads; CPython str/tuple hash collisions; operations not listed"
FAMILY = "models/configurators x operations"
ASSUMPTIONS = ["M4 (int and hash shadows)", "M5 structural", "M6", "M7 for to_ge_polyhedron/solve/select (concrete parameters)", "M10"]


def functions(ns):
    A, C_ = ns.pg.AtLeast, ns.cc.StingyConfigurator
    return [A.assume, A.evaluate, A.evaluate_propositions, A.reduce, A.negate, A.errors, A.flatten, A.to_json, A.to_b64, A.to_text, A.to_short, A.to_ge_polyhedron, A.solve,
            A.__hash__, A.__eq__, C_.select, C_.add, C_.default_prios, C_.leafs, C_.ge_polyhedron.fget, ns.cc.Xor.__init__]


def instantiations(tier, seed):
    rng = random.Random(seed * 1601 + 7)
    out = []
    skels = [s for s in F.pl_family(tier, seed, n_quick=4, n_thorough=60) if s["t"] != "Not"]
    pick = skels if tier == "thorough" else [skels[i] for i in (0, 2, 11, 12, 13, 16, 23, 24, 27, 29, 30, 31) if i < len(skels)]
    for k, sk in enumerate(pick):
        names = F.ALT_NAMES[(k + seed) % len(F.ALT_NAMES)]
        ops = PL_OPS if tier == "thorough" else [PL_OPS[(k + j) % len(PL_OPS)] for j in range(8)] + ["evaluate"]
        for op in dict.fromkeys(ops):
            conc = op in ("to_ge_polyhedron", "solve")
            m = F.rename(sk if conc else F.symbolize(sk), names)
            out.append({"part": "frame", "kind_": "plog", "model": m, "op": op})
            if op in ("evaluate", "assume", "evaluate_propositions", "reduce") and k % 2 == 0:
                out.append({"part": "frame", "kind_": "plog", "model": F.with_subclass_leaves(m), "op": op})
            if op in ("negate", "reduce", "assume", "evaluate", "flatten", "to_json") and not conc:
                # sub-propositions whose own variable was given as an explicit puan.variable with constant bounds
                out.append({"part": "frame", "kind_": "plog", "model": _prefix(m, k), "op": op})
    for k, c in enumerate(cfg.cfg_family(tier, seed, n_quick=2, n_thorough=40)[:(6 if tier == "quick" else 200)]):
        for op in (CFG_OPS if (tier == "thorough" or k < 5) else [CFG_OPS[k % len(CFG_OPS)]]):
            out.append({"part": "frame", "kind_": "cfg", "model": c, "op": op})
    for c in cfg.curated()[:3] + [cfg.SC(F.AL(1, F.V("x", -3, 3), F.V("y", -3, 3), id="R", sign=1))]:
        out.append({"part": "cache", "model": c})
    # the same query twice on one object with two different interpretations (hash values decided: hash(-1) == hash(-2) is represented)
    # thresholds chosen so that the values -1 and -2 (equal CPython hashes) give different truth values
    rep_models = [F.AL(-1, F.V("n", -5, 5), F.a(), id="A", sign=1), F.AM(-2, F.V("n", -5, 5), F.a(), id="A"),
                  F.N("Any", F.AL(-1, F.V("n", -5, 5), id="B", sign=1), F.a(), id="A"),
                  ] + ([F.AL(1, F.V("n", -5, 5), F.V("k", -3, 3), id="A", sign=-1)] if tier == "thorough" else [])
    for m in rep_models:
        for op in ("evaluate", "evaluate_propositions"):
            for form in ("int", "tuple"):
                out.append({"part": "repeat", "kind_": "plog", "model": m, "op": op, "form": form})
                out.append({"part": "repeat", "kind_": "plog", "model": m, "op": op, "form": form, "samedict": True})
    # call histories of length 3: warm-up queries on the object, then a deriving operation, then queries on the derived object and on the original
    hist_cfgs = cfg.cfg_family(tier, seed, n_quick=2, n_thorough=40)
    for k, c in enumerate(hist_cfgs if tier == "thorough" else hist_cfgs[:5] + hist_cfgs[-4:]):
        for derive in ("add", "assume", "negate", "reduce"):
            out.append({"part": "history", "kind_": "cfg", "model": c, "derive": derive})
    # configurators with an integer item and with an item fixed by its bounds (non-zero lower bounds reach the built-in solver's own bookkeeping)
    from sx.families import V as V_, AL as AL_
    for c in [cfg.SC(AL_(6, V_("t", 0, 5), V_("u", 2, 7), id="R", sign=1), cfg.cXor(V_("x"), V_("y"), id="X", default=["x"])),
              cfg.SC(F.N("Any", V_("k", 1, 1), V_("a"), id="A"), cfg.cAny(V_("b"), V_("c"), id="B", default=["b"]))]:
        for derive in ("add", "assume"):
            out.append({"part": "history", "kind_": "cfg", "model": c, "derive": derive})
    for k, sk in enumerate(pick[:6] if tier == "quick" else pick):
        m = F.rename(sk, F.ALT_NAMES[(k + seed) % len(F.ALT_NAMES)])
        for derive in ("assume", "negate", "reduce"):
            out.append({"part": "history", "kind_": "plog", "model": m, "derive": derive})
        out.append({"part": "history", "kind_": "plog", "model": F.with_subclass_leaves(m), "derive": "assume"})
    for mu in ("expect_mutation",):
        out.append({"kind": "mutant", "mutant": mu, "part": "frame", "kind_": "plog", "op": "flatten",
                    "model": F.symbolize(F.AL(2, F.a(), F.i(), F.AL(1, F.b(), F.c(), id="B", sign=1), id="A", sign=1))})
    return out


def _prefix(spec, k):
    s = copy.deepcopy(spec)
    n = 0
    for c in pl.compounds(s):
        if c.get("id") and c["t"] != "Not":
            c["vb"] = [[1, 1], [0, 0], [0, 1]][(k + n) % 3]
            n += 1
    return s


def _leafnodes(spec, acc=None):
    acc = [] if acc is None else acc
    if spec["t"] == "var":
        acc.append(spec)
    for c in spec.get("ch", []):
        _leafnodes(c, acc)
    return acc


def _dummy_solver(P, objs):
    return [(np.zeros(P.A.shape[1], dtype=int), 0, 6) for _ in objs]


import contextlib
import os as _os


@contextlib.contextmanager
def _quiet_stderr():
    """the Rust encoder prints its panic message to fd 2 before pyo3 raises PanicException; keep logs readable"""
    try:
        saved = _os.dup(2)
        dn = _os.open(_os.devnull, _os.O_WRONLY)
        _os.dup2(dn, 2)
    except OSError:
        yield
        return
    try:
        yield
    finally:
        _os.dup2(saved, 2)
        _os.close(dn)
        _os.close(saved)


def _observe(ns, obj, leaves):
    """canonical, comparable summary of everything a later query on `obj` can return (concrete objects only)"""
    out = {}
    if issubclass(obj.__class__, ns.puan.variable):
        return {"var": (obj.id, int(obj.bounds.lower), int(obj.bounds.upper))}
    out["repr"] = sorted(repr(x) for x in obj.flatten())
    out["bounds"] = sorted((str(x.id), int(x.bounds.lower), int(x.bounds.upper)) for x in obj.flatten())
    out["errors"] = [str(e) for e in obj.errors()]
    try:
        out["json"] = obj.to_json()
    except Exception as e:    # noqa
        out["json"] = "raises %s" % type(e).__name__
    interp = {l: lo for l, (lo, hi) in leaves.items()}
    ev = obj.evaluate(dict(interp))
    out["evaluate"] = (int(ev.lower), int(ev.upper))
    try:
        with _quiet_stderr():
            P = obj.to_ge_polyhedron(True)
        out["poly"] = (np.asarray(P).astype(int).tolist(), [str(v.id) for v in P.variables], [(int(v.bounds.lower), int(v.bounds.upper)) for v in P.variables])
    except (S.Abort, S.Inconclusive, S.HarnessError):
        raise
    except BaseException as e:    # noqa  (the Rust encoder panics -> pyo3 PanicException, a BaseException, on models with pre-fixed parts: outside C01's precondition)
        out["poly"] = "raises %s" % type(e).__name__
    if isinstance(obj, ns.cc.StingyConfigurator):
        P = obj.ge_polyhedron
        out["cfgpoly"] = (np.asarray(P).astype(int).tolist(), [str(v.id) for v in P.variables], [int(v) for v in P.default_prio_vector])
        out["prios"] = sorted((str(k), v) for k, v in obj.default_prios.items())
        out["leafs"] = [str(v.id) for v in obj.leafs()]
        out["select"] = [sorted((str(a), int(b)) for a, b in s[0].items()) for s in obj.select({obj.leafs()[0].id: 1}, solver=_first_feasible)]
        out["select2"] = [sorted((str(a), int(b)) for a, b in s[0].items()) for s in obj.select({obj.leafs()[0].id: -1}, {obj.leafs()[-1].id: 2}, solver=_first_feasible)]
        out["select3"] = [sorted((str(a), int(b)) for a, b in s[0].items()) for s in obj.select({}, solver=_first_feasible)]
        # the same questions to the built-in solver (solver=None): a different code path inside select()
        def _bs(res):
            return [(None if s_[0] is None else sorted((str(a_), int(b_)) for a_, b_ in s_[0].items()), int(s_[1]) if s_[1] is not None else None, int(s_[2])) for s_ in res]
        import copy as _copy
        from replays import common as _RC
        probe = _copy.deepcopy(obj)
        if _RC.terminates(("c09", repr(sorted(repr(x) for x in obj.flatten()))), lambda: (list(probe.select({probe.leafs()[0].id: 1})), list(probe.select({probe.leafs()[-1].id: -1}, {})))):
            try:
                out["select_builtin"] = _bs(obj.select({obj.leafs()[0].id: 1}))
                out["select_builtin2"] = _bs(obj.select({obj.leafs()[-1].id: -1}, {}))
            except Exception as e_:    # noqa
                out["select_builtin"] = "raises %s" % type(e_).__name__
        else:
            out["select_builtin"] = "built-in solver did not return within the probe time"
        P = obj.ge_polyhedron
        out["cfgpoly_after_selects"] = (np.asarray(P).astype(int).tolist(), [str(v.id) for v in P.variables], [int(v) for v in P.default_prio_vector])
    return out


def _first_feasible(P, objs):
    """deterministic exact-enough solver for comparisons: best of all 0/1 points (<= 16 columns), else the zero vector"""
    import itertools
    A = np.asarray(P.A).astype(int)
    b = np.asarray(P.b).astype(int)
    if A.shape[1] > 14:
        return [(np.zeros(A.shape[1], dtype=int), 0, 6) for _ in objs]
    pts = np.array(list(itertools.product((0, 1), repeat=A.shape[1])), dtype=int).reshape(-1, A.shape[1])
    feas = pts[(pts @ A.T >= b).all(axis=1)]
    return [((feas[int(np.argmax(feas @ np.asarray(o).astype(int)))] if len(feas) else None), 0, 6) for o in objs]


def _derive(ns, obj, how, leaves):
    if how == "add":
        return obj.add(ns.pg.Any("zz1", "zz2", variable="ZZ"))
    if how == "assume":
        l = sorted(leaves)[0]
        return obj.assume({l: leaves[l][1]})
    if how == "negate":
        return obj.negate()
    if how == "reduce":
        return obj.reduce()
    raise S.HarnessError(how)


def _history(ns, spec, run):
    model_spec, how = spec["model"], spec["derive"]
    leaves = {k: (int(lo), int(hi)) for k, (lo, hi) in pl.leaves(model_spec).items()}
    _clear_caches(ns)
    try:
        probe = pl.build(ns, model_spec, {})
    except Exception as e:    # noqa
        return run.skipped("constructor rejects the instantiation: %s" % type(e).__name__)
    if probe.errors() != [] or (how == "add" and not isinstance(probe, ns.cc.StingyConfigurator)):
        return run.skipped("not applicable to this model")

    def fn(ctx):
        _clear_caches(ns)
        res = {}
        try:
            # cold: derive from a fresh object, observe the derived object
            E.reset_process_state()
            cold_src = pl.build(ns, model_spec, {})
            cold = _observe(ns, _derive(ns, cold_src, how, leaves), leaves)
            E.reset_process_state()
            fresh = _observe(ns, pl.build(ns, model_spec, {}), leaves)
            E.reset_process_state()
            # warm: every query first (leaf-only interpretations: the open finding about named sub-propositions is excluded), then derive
            m = pl.build(ns, model_spec, {})
            _observe(ns, m, leaves)
            m.evaluate_propositions({l: lo for l, (lo, hi) in leaves.items()})
            m.flatten(); m.to_text(); m.to_short()
            warm_derived = _derive(ns, m, how, leaves)
            warm = _observe(ns, warm_derived, leaves)
            after = _observe(ns, m, leaves)
            res = dict(cold=cold, warm=warm, fresh=fresh, after=after, err=None)
        except Exception as e:    # noqa
            res = dict(err="%s: %s" % (type(e).__name__, e))
        return res

    def on_path(ctx, d):
        run.path(ctx, free=False)
        run.region("history:" + how)
        run.region("history-cfg" if spec["kind_"] == "cfg" else "history-plog")

        def conc(m):
            return {"env": {}}
        if d["err"] is not None:
            run.obligation(ctx, "history-raises", True, conc, extra=d["err"])
            return
        diff = [k for k in d["cold"] if d["cold"].get(k) != d["warm"].get(k)]
        run.obligation(ctx, "derived-object-independent-of-earlier-queries", bool(diff), conc, extra="differs in %s" % diff)
        diff2 = [k for k in d["fresh"] if d["fresh"].get(k) != d["after"].get(k)]
        run.obligation(ctx, "object-answers-like-fresh-after-history", bool(diff2), conc, extra="differs in %s" % diff2)
        run.sample({"model": pl.show(model_spec), "history": ["all queries", how, "all queries"]})

    st = S.explore(fn, on_path, max_paths=5, wall=600)
    return run.result(st)


def _repeat(ns, spec, run):
    """evaluate(I1) then evaluate(I2) on ONE object; the second answer must be the truth function at I2.
    Hash values are modelled in *decided* mode with the small integers pre-registered, so that two different values with
    equal CPython hashes (-1 and -2) really hash alike inside the code under test."""
    model_spec, op = spec["model"], spec["op"]
    leaves = pl.leaves(model_spec)

    def fn(ctx):
        ctx.preregister([-2, -1, 0, 1, 2])
        m = pl.build(ns, model_spec, {})
        x1 = {l: (ctx.int("x1_" + l, lo, hi) if (lo, hi) != (0, 1) else 0) for l, (lo, hi) in leaves.items()}
        x2 = {l: (ctx.int("x2_" + l, lo, hi) if (lo, hi) != (0, 1) else 0) for l, (lo, hi) in leaves.items()}
        z2 = {l: S.term(v) for l, v in x2.items()}
        ref = pl.obj_sem(ns, pl.build(ns, model_spec, {}), z2)

        def interp(x):
            return {l: (v if spec["form"] == "int" or not isinstance(v, S.SymInt) else (v, v)) for l, v in x.items()}
        err = r2 = None
        S.HASH_MODE = "decided"
        try:
            f = getattr(m, op)
            if spec.get("samedict"):
                # the caller keeps ONE dictionary and edits it in place between the two calls
                dct = interp(x1)
                f(dct)
                dct.clear()
                dct.update(interp(x2))
                out = f(dct)
            else:
                f(interp(x1))
                out = f(interp(x2))
            r2 = out[m.id] if op == "evaluate_propositions" else out
        except Exception as e:    # noqa
            err = "%s: %s" % (type(e).__name__, e)
        finally:
            S.HASH_MODE = "structural"
        return dict(x1=x1, x2=x2, ref=ref, r2=r2, err=err)

    def on_path(ctx, d):
        run.path(ctx)
        run.region("repeat-evaluate")
        if spec.get("samedict"):
            run.region("repeat-with-the-same-dictionary-edited-in-place")

        def conc(mm):
            return {"env": {}, "x1": {k: (S.model_int(mm, v) if isinstance(v, S.SymInt) else v) for k, v in d["x1"].items()},
                    "x2": {k: (S.model_int(mm, v) if isinstance(v, S.SymInt) else v) for k, v in d["x2"].items()}}
        if d["err"] is not None:
            run.obligation(ctx, "raises", True, conc, extra=d["err"])
            return
        syms = [(a, b) for a, b in zip(d["x1"].values(), d["x2"].values()) if isinstance(a, S.SymInt)]
        if syms and "repeat-with-equal-hash-different-value" not in run.regions:
            if ctx.query(z3.Or([z3.And(a.e == -1, b.e == -2) for a, b in syms] + [z3.And(a.e == -2, b.e == -1) for a, b in syms]))[0] == "sat":
                run.region("repeat-with-equal-hash-different-value")
        r2 = d["r2"]
        run.obligation(ctx, "second-call-answers-for-its-own-interpretation", z3.Or(S.term(r2.lower) != d["ref"], S.term(r2.upper) != d["ref"]), conc)
        run.sample({"model": pl.show(model_spec), "op": op, "path_condition": [str(z3.simplify(c)) for c in ctx.pc][:6]})

    st = S.explore(fn, on_path, max_paths=5000, wall=600)
    return run.result(st)


def run_inst(spec, run):
    ns = E.load_repo()
    if spec["part"] == "cache":
        return _cache(ns, spec, run)
    if spec["part"] == "history":
        return _history(ns, spec, run)
    if spec["part"] == "repeat":
        return _repeat(ns, spec, run)
    mu = spec.get("mutant")
    model_spec, op = spec["model"], spec["op"]
    iscfg = spec["kind_"] == "cfg"
    _clear_caches(ns)
    _clear_caches(ns)
    try:
        rep = pl.build(ns, model_spec, plh.mid_env(model_spec))
    except Exception as e:   # noqa
        return run.skipped("constructor rejects the instantiation: %s" % type(e).__name__)
    if rep.errors() != []:
        return run.skipped("model fails the repository's own validation (errors() != [])")
    leaves = pl.leaves(model_spec)
    cids = [c["id"] for c in pl.compounds(model_spec) if c.get("id")]

    def fn(ctx):
        env = plh.sym_env(ctx, model_spec)
        _clear_caches(ns)
        _clear_caches(ns)
        m = pl.build(ns, model_spec, env)
        before = snap(ns, m)
        ent, pres = {}, {}
        if op in ("evaluate", "evaluate_propositions", "assume"):
            # at most 3 symbolic presence flags (one leaf, <=2 compound ids incl. the top id): every flag is a fork
            chosen = list(leaves)[:1] + ([m.id] if m.id in cids else []) + [c for c in cids if c != m.id][:1]
            for l, (lo, hi) in leaves.items():
                x = ctx.int("x_" + l)
                ctx.assume(z3.And(x.e >= S.term(pl.P(env, lo)), x.e <= S.term(pl.P(env, hi))))
                p = ctx.bool("p_" + l) if l in chosen else True
                ent[l] = (p, x)
                pres[l] = p
            for c in cids:
                if c in chosen:
                    p = ctx.bool("p_" + c)
                    ent[c] = (p, ctx.int("o_" + c, 0, 1))
                    pres[c] = p
        arg = E.SymDict(ent)
        err = None
        try:
            if op == "evaluate":
                m.evaluate(arg)
            elif op == "evaluate_propositions":
                m.evaluate_propositions(arg)
            elif op == "assume":
                m.assume(arg)
            elif op == "reduce":
                m.reduce()
            elif op == "negate":
                m.negate()
            elif op == "errors":
                m.errors()
            elif op == "flatten":
                m.flatten()
            elif op == "to_json":
                m.to_json()
            elif op == "to_b64":
                m.to_b64()
            elif op == "to_text":
                m.to_text()
            elif op == "to_short":
                m.to_short()
            elif op == "to_ge_polyhedron":
                m.to_ge_polyhedron(active=True)
                m.to_ge_polyhedron(active=False)
            elif op == "solve":
                list(m.solve([{}], solver=_dummy_solver))
            elif op == "select":
                list(m.select({cfg.items(model_spec)[0]: 1}, solver=_dummy_solver))
            elif op == "add":
                m.add(ns.pg.Any("zz1", "zz2", variable="ZZ"))
            elif op == "default_prios":
                m.default_prios
            elif op == "leafs":
                m.leafs()
            elif op == "ge_polyhedron":
                m.ge_polyhedron
        except Exception as e:   # noqa
            err = "%s: %s" % (type(e).__name__, e)
        after = snap(ns, m)
        return dict(env=env, before=before, after=after, pres=pres, arg=arg, err=err, topid=m.id, ent=ent)

    def on_path(ctx, d):
        run.path(ctx)
        env = d["env"]

        def conc(mm):
            return {"env": plh.conc_env(mm, env),
                    "arg": {k: [bool(S.model_int(mm, p.e)) if isinstance(p, S.SymBool) else bool(p), S.model_int(mm, v)] for k, (p, v) in d["ent"].items()}}
        run.region(("cfg-op:" if iscfg else "op:") + op)
        if any(v.get("sub") for v in _leafnodes(model_spec)):
            run.region("subclass-leaves")
        if any(c.get("vb") in ([1, 1], [0, 0]) for c in pl.compounds(model_spec)):
            run.region("prefixed-subproposition")
        dec = d["arg"].decided
        if any(dec.get(c) for c in cids):
            run.region("interpretation-names-compound-id")
        if dec.get(d["topid"]):
            run.region("interpretation-names-top-id")
        comp_named = z3.Or([p.e for k, p in d["pres"].items() if k in cids and isinstance(p, S.SymBool)] or [z3.BoolVal(False)])
        kn = {"assume-mutates-named-subproposition": comp_named}
        diff = snap_diff(d["before"], d["after"])
        if mu == "expect_mutation":
            diff = z3.Not(diff)
        run.obligation(ctx, "object-unchanged-by-" + op, diff, conc, known=kn)
        run.sample({"model": pl.show(model_spec), "op": op, "path_condition": [str(z3.simplify(c)) for c in ctx.pc][:5]})

    st = S.explore(fn, on_path, max_paths=8000, wall=900)
    return run.result(st)


def _cache(ns, spec, run):
    """lru_cache key of StingyConfigurator.ge_polyhedron: (AtLeast.__hash__, AtLeast.__eq__) on two same-skeleton configurators with independent item boxes"""
    base = spec["model"]
    its = cfg.items(base)

    def boxed(tag):
        s = copy.deepcopy(base)

        def go(n):
            if n["t"] == "var":
                n["lo"], n["hi"] = "$lo_%s%s" % (n["id"], tag), "$hi_%s%s" % (n["id"], tag)
            for c in n.get("ch", []):
                go(c)
        go(s)
        return s
    s1, s2 = boxed("1"), boxed("2")

    def fn(ctx):
        env = {}
        for tag in ("1", "2"):
            for i in its:
                lo, hi = ctx.int("lo_%s%s" % (i, tag), -4, 4), ctx.int("hi_%s%s" % (i, tag), -4, 4)
                ctx.assume(lo.e <= hi.e)
                env["lo_%s%s" % (i, tag)], env["hi_%s%s" % (i, tag)] = lo, hi
        c1, c2 = pl.build(ns, s1, env), pl.build(ns, s2, env)
        with E.hash_shadow():
            h1, h2 = c1.__hash__(), c2.__hash__()
        eq = c1 == c2
        eqz = eq.e if isinstance(eq, S.SymBool) else z3.BoolVal(bool(eq))
        return dict(env=env, h1=h1, h2=h2, eqz=eqz)

    def on_path(ctx, d):
        run.path(ctx)
        env = d["env"]

        def conc(m):
            return {"env": plh.conc_env(m, env)}
        differ = z3.Or([z3.Or(env["lo_%s1" % i].e != env["lo_%s2" % i].e, env["hi_%s1" % i].e != env["hi_%s2" % i].e) for i in its])
        key_eq = z3.And(E.hash_equal(d["h1"], d["h2"]), d["eqz"])
        if ctx.query(key_eq)[0] == "sat":
            run.region("cache-key-equal-possible")
        # candidate: equal cache key, different definitions; the replay decides whether the second configurator really gets the first one's polyhedron
        run.obligation(ctx, "different-configurators-share-a-cache-entry", z3.And(key_eq, differ), conc, soft=True)
        run.sample({"model": pl.show(base), "hash_1": repr(d["h1"])[:200]})

    try:
        st = S.explore(fn, on_path, max_paths=3000, wall=600)
    except (TypeError, AttributeError) as e:
        return run.skipped("cache key not encodable: %s" % type(e).__name__)
    return run.result(st)
