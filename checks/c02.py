"""C02 — integer solutions of the polyhedron are exactly the satisfying configurations."""
import random
import z3

from sx import core as S, env as E, pl, plh, families as F, poly

PROPERTY = "C02"
REGIONS = ["solver-safe", "not-solver-safe", "built-through-negation", "integer-leaf", "16-bit-leaf", "satisfiable-model", "unsatisfiable-top-possible"]
BOUNDS = ("PL family skeletons (<=7 compounds, depth<=3) and their Not()/negate() images, CONCRETE thresholds/signs/boxes (M7); "
          "all leaf values and all auxiliary (sub-proposition) columns symbolic within their bounds")
OUTSIDE = "larger skeletons; parameters other than the instantiated ones; the converse direction for models that are not solver-safe (not claimed by the property)"
FAMILY = "curated + seeded PL skeletons x seeded re-parameterisations x {as is, negate(), Not()}"
ASSUMPTIONS = ["M7: real Rust encoder on concrete model parameters", "reference truth function T read off the freshly built object graph (value/sign/children), written in the harness",
               "solver-safety is the harness's structural predicate: no compound child under a negatively signed parent"]


def functions(ns):
    A = ns.pg.AtLeast
    return [A.to_ge_polyhedron, A.flatten, A.negate, ns.pg.Not.__new__, A.__init__]


def instantiations(tier, seed):
    rng = random.Random(seed * 503 + 29)
    out = []
    skels = F.pl_family(tier, seed, n_quick=200, n_thorough=1500)
    reps = 3 if tier == "quick" else 6
    for k, sk in enumerate(skels):
        names = F.ALT_NAMES[(k + seed) % len(F.ALT_NAMES)]
        for r in range(reps):
            m = F.rename(sk if r == 0 else poly.reparam(sk, rng), names)
            out.append({"model": m, "via": ["asis", "negate", "Not"][(k + r) % 3] if m["t"] != "Not" else "asis"})
    base = F.N("All", F.N("Any", F.a(), F.b(), id="B"), F.AL(2, F.c(), F.i(), id="C", sign=1), id="A")
    for mu in ("q1_wrong_witness", "q2_claim_unsafe"):
        out.append({"kind": "mutant", "mutant": mu, "via": "asis",
                    "model": base if mu == "q1_wrong_witness" else F.AL(0, F.AL(1, F.a(), F.b(), id="B", sign=1), F.AL(1, F.c(), F.d(), id="C", sign=1), id="A", sign=-1)})
    return out


def _spec_safe(spec):
    """spec-level: no AtMost / negatively signed AtLeast / Xor / ExactlyOne node lists a sub-proposition among its children"""
    if spec["t"] == "var":
        return True
    negpar = spec["t"] in ("AtMost", "Xor", "ExactlyOne") or (spec["t"] == "AtLeast" and (spec.get("sign") == -1 or (spec.get("sign") is None and isinstance(spec.get("value"), int) and spec["value"] <= 0)))
    if negpar and any(c["t"] != "var" for c in spec["ch"]):
        return False
    return all(_spec_safe(c) for c in spec["ch"])


def _mk(ns, spec):
    m = pl.build(ns, spec["model"], {})
    if spec["via"] == "negate":
        m = m.negate()
    elif spec["via"] == "Not":
        m = ns.pg.Not(m)
    return m


def run_inst(spec, run):
    ns = E.load_repo()
    mu = spec.get("mutant")
    try:
        m = _mk(ns, spec)
    except Exception as e:   # noqa
        return run.skipped("constructor rejects the instantiation: %s" % type(e).__name__)
    if m.errors() != []:
        return run.skipped("model fails the repository's own validation (errors() != [])")
    if poly.prefixed(ns, m):
        return run.skipped("a sub-proposition is pre-fixed to a constant (excluded by the property)")
    crash = None
    try:
        M = m.to_ge_polyhedron(active=True)
    except Exception as e:   # noqa
        M, crash = None, "%s: %s" % (type(e).__name__, e)
    g = _mk(ns, spec)           # fresh graph for the reference semantics
    nodes = plh.walk(ns, g)
    if _spec_safe(spec["model"]) and not pl.solver_safe(ns, g):
        # informational only: the property claims the converse direction for solver-safe models; a connective that used to deliver
        # that form and no longer does is worth a line in the log, but it is not a violation of the property as stated
        run.notes.append({"note": "built through the public connectives from a spec without negatively signed parents over sub-propositions, "
                                  "yet the resulting model is not in solver-safe form (converse direction not claimed for it): %s via %s" % (pl.show(spec["model"]), spec["via"])})
    leaves = {k: o[0] for k, o in nodes.items() if issubclass(o[0].__class__, ns.puan.variable)}
    safe = pl.solver_safe(ns, g)

    def fn(ctx):
        x, aux = {}, {}
        for lid, v in leaves.items():
            s = ctx.int("x_%s" % lid, S.concrete(v.bounds.lower), S.concrete(v.bounds.upper))
            x[lid] = s
        for nid, o in nodes.items():
            if nid not in leaves:
                aux[nid] = ctx.int("aux_%s" % str(nid)[:16], S.concrete(o[0].bounds.lower), S.concrete(o[0].bounds.upper))
        return dict(x=x, aux=aux)

    def on_path(ctx, res):
        run.path(ctx)
        x, aux = res["x"], res["aux"]

        def conc(mm):
            return {"x": plh.conc_vals(mm, x), "aux": {str(k): S.model_int(mm, v) for k, v in aux.items()}}
        if M is None:
            run.obligation(ctx, "to_ge_polyhedron-raises", True, conc, extra=crash)
            return
        zx = {k: v.e for k, v in x.items()}
        memo = {}
        T = {nid: pl.obj_sem(ns, o[0], zx, None, memo) for nid, o in nodes.items()}
        top = T[g.id]
        run.region("solver-safe" if safe else "not-solver-safe")
        if spec["via"] != "asis" or any(c["t"] in ("Not", "Imply", "XNor") for c in pl.compounds(spec["model"])):
            run.region("built-through-negation")
        bx = [(S.concrete(v.bounds.lower), S.concrete(v.bounds.upper)) for v in leaves.values()]
        if any(b != (0, 1) for b in bx):
            run.region("integer-leaf")
        if any(b == (-32768, 32767) for b in bx):
            run.region("16-bit-leaf")
        if "satisfiable-model" not in run.regions and ctx.query(top == 1)[0] == "sat":
            run.region("satisfiable-model")
        if "unsatisfiable-top-possible" not in run.regions and ctx.query(top == 0)[0] == "sat":
            run.region("unsatisfiable-top-possible")
        cols = [v.id for v in list(M.variables)[1:]]
        if set(cols) != set(nodes) - {g.id}:
            run.obligation(ctx, "columns", True, conc, extra="column ids differ from model ids")
            return
        # Q1: every satisfying leaf assignment extends (with the reference truth values) to a point of the polyhedron
        wit = dict(T)
        if mu == "q1_wrong_witness":
            wit = {k: (1 - v if k not in leaves else v) for k, v in T.items()}
        r1 = poly.rows(M, wit)
        # the reference truth values are only ONE candidate completion: a failing witness is a candidate, the replay searches all completions
        run.obligation(ctx, "no-configuration-lost", z3.And(top == 1, z3.Not(z3.And(r1))), conc, soft=True)
        # Q2: (solver-safe only) the leaf part of every integer point satisfies the model
        if safe or mu == "q2_claim_unsafe":
            col = dict(zx)
            col.update({k: v.e for k, v in aux.items()})
            r2 = poly.rows(M, col)
            run.obligation(ctx, "no-spurious-point", z3.And(z3.And(r2), top == 0), conc)
        run.sample({"model": pl.show(spec["model"]), "via": spec["via"], "solver_safe": safe, "matrix": M.tolist(), "columns": [str(c) for c in cols]})

    st = S.explore(fn, on_path, max_paths=10, wall=600)
    return run.result(st)
