"""C06 — partial evaluation and tautology/contradiction flags are sound; equation bounds exact."""
import random
import z3

from sx import core as S, env as E, pl, plh, families as F

PROPERTY = "C06"
REGIONS = ["leaf-absent", "leaf-subrange", "leaf-constant", "negative-sign", "integer-leaf", "tautology-flag", "contradiction-flag",
           "non-constant-result"]
BOUNDS = ("PL family skeletons (<=7 compounds); thresholds/signs symbolic on named AtLeast/AtMost nodes (|v|<=2^20); integer-leaf "
          "boxes symbolic in [-32768,32767]; per leaf a symbolic presence flag (<=3 leaves symbolic, rest fixed by the instantiation), "
          "a symbolic interval inside the box, and a symbolic completion inside the interval/box")
OUTSIDE = "larger skeletons; intervals outside the leaf box; partial overrides of sub-proposition ids (C07 covers assume)"
FAMILY = "curated + seeded PL skeletons x presence patterns x value forms (int / tuple / Bounds)"
ASSUMPTIONS = ["M4", "M5 structural", "M6", "M10"]
FORMS = ["int", "tuple", "bounds"]


def functions(ns):
    A = ns.pg.AtLeast
    return [A.evaluate_propositions, A.evaluate, A.assume, A._equation_mm, A.equation_bounds, A.is_tautology, A.is_contradiction,
            ns.puan.variable.evaluate, ns.puan.variable.assume]


def instantiations(tier, seed):
    rng = random.Random(seed * 101 + 9)
    out = []
    skels = F.pl_family(tier, seed, n_quick=15, n_thorough=250)
    for k, sk in enumerate(skels):
        names = F.ALT_NAMES[(k + seed) % len(F.ALT_NAMES)]
        m = F.rename(F.symbolize(sk), names)
        lv = list(pl.leaves(m))
        sym = rng.sample(lv, min(3, len(lv)))
        mode = {}
        for n, l in enumerate(lv):
            if l in sym:
                mode[l] = "sym"
            else:
                mode[l] = rng.choice(["absent", "present"])
        forms = {l: FORMS[(n + k + seed) % 3] for n, l in enumerate(lv)}
        out.append({"model": m, "mode": mode, "forms": forms, "part": "partial", "warm": k % 3 == 1})
        out.append({"model": m, "mode": mode, "forms": forms, "part": "flags", "warm": k % 3 == 1})
    base = F.symbolize(F.AL(2, F.a(), F.i(), F.AL(1, F.b(), F.c(), id="B", sign=1), id="A", sign=1))
    for mu in ("strict_lower", "taut_strict", "eqb_swapped"):
        out.append({"kind": "mutant", "mutant": mu, "model": base, "part": "partial" if mu == "strict_lower" else "flags", "mode": {"a": "sym", "i": "sym", "b": "sym", "c": "absent"},
                    "forms": {"a": "tuple", "i": "tuple", "b": "bounds", "c": "int"}})
    return out


def run_inst(spec, run):
    ns = E.load_repo()
    model_spec = spec["model"]
    mu = spec.get("mutant")
    rep = pl.build(ns, model_spec, plh.mid_env(model_spec))
    if rep.errors() != []:
        return run.skipped("model fails the repository's own validation (errors() != [])")
    leaves = pl.leaves(model_spec)

    def fn(ctx):
        env = plh.sym_env(ctx, model_spec)
        m0 = pl.build(ns, model_spec, env)
        nodes = plh.walk(ns, m0)
        if spec.get("warm"):
            plh.warm(ns, m0)
        # ---- flags and equation bounds on the freshly built nodes (children free in their bounds)
        flags = []
        for nid, objs in (nodes.items() if spec["part"] == "flags" else []):
            nd = objs[0]
            if issubclass(nd.__class__, ns.puan.variable):
                continue
            ys = []
            for j, c in enumerate(nd.propositions):
                y = ctx.int("y_%s_%d" % (nid[:12], j))
                ctx.assume(z3.And(y.e >= S.term(c.bounds.lower), y.e <= S.term(c.bounds.upper)))
                ys.append(y.e)
            los = [S.term(c.bounds.lower) for c in nd.propositions]
            his = [S.term(c.bounds.upper) for c in nd.propositions]
            flags.append(dict(id=nid, taut=nd.is_tautology, contr=nd.is_contradiction, eqb=nd.equation_bounds,
                              ys=ys, los=los, his=his, sign=S.term(nd.sign), value=S.term(nd.value)))
        if spec["part"] == "flags":
            return dict(env=env, comp={}, ivs={}, pres={}, flags=flags, ref={}, r={}, err=None, interp=None)
        # ---- partial interpretation
        m1 = pl.build(ns, model_spec, env)
        ent, comp, ivs, pres = {}, {}, {}, {}
        for l, (lo, hi) in leaves.items():
            bl, bh = S.term(pl.P(env, lo)), S.term(pl.P(env, hi))
            x = ctx.int("x_" + l)
            md = spec["mode"][l]
            p = ctx.bool("p_" + l) if md == "sym" else (md == "present")
            il, ih = ctx.int("il_" + l), ctx.int("ih_" + l)
            if spec["forms"][l] == "int":
                ctx.assume(il.e == ih.e)
            ctx.assume(z3.And(bl <= il.e, il.e <= ih.e, ih.e <= bh))
            pz = p.e if isinstance(p, S.SymBool) else z3.BoolVal(p)
            ctx.assume(z3.If(pz, z3.And(il.e <= x.e, x.e <= ih.e), z3.And(bl <= x.e, x.e <= bh)))
            ent[l] = (p, plh.form(ns, spec["forms"][l], il, ih))
            comp[l] = x
            ivs[l] = (il, ih)
            pres[l] = p
        interp = E.SymDict(ent)
        ref = {nid: pl.obj_sem(ns, objs[0], {k: v.e for k, v in comp.items()}) for nid, objs in nodes.items()}
        err = r = ev = None
        try:
            if spec.get("warm"):
                plh.warm(ns, m1)
            r = m1.evaluate_propositions(interp)
            # evaluate() on a fresh copy with the same partial interpretation: its bounds must contain the model's value as well
            ev = pl.build(ns, model_spec, env).evaluate(interp)
        except Exception as e:   # noqa
            err = "%s: %s" % (type(e).__name__, e)
        return dict(env=env, comp=comp, ivs=ivs, pres=pres, flags=flags, ref=ref, r=r, err=err, interp=interp, ev=ev, topid=m0.id)

    def _flags(ctx, res, conc):
        # flags
        fv = []
        ev = []
        for f in res["flags"]:
            tot = pl._sum(f["ys"])
            lhs = z3.If(f["sign"] == 1, tot, -tot)
            if f["taut"]:
                run.region("tautology-flag")
                fv.append(lhs < f["value"] if mu != "taut_strict" else lhs <= f["value"])
            if f["contr"]:
                run.region("contradiction-flag")
                fv.append(lhs >= f["value"])
            mn, mx = S.term(f["eqb"][0]), S.term(f["eqb"][1])
            slo, shi = pl._sum(f["los"]), pl._sum(f["his"])
            emn = z3.If(f["sign"] == 1, slo, -shi) - f["value"]
            emx = z3.If(f["sign"] == 1, shi, -slo) - f["value"]
            if mu == "eqb_swapped":
                emn, emx = emx, emn
            ev.append(z3.Or(mn != emn, mx != emx, lhs - f["value"] < mn, lhs - f["value"] > mx))
        if fv:
            run.obligation(ctx, "flags-sound", z3.Or(fv), conc)
        if ev:
            run.obligation(ctx, "equation-bounds-exact", z3.Or(ev), conc)
        env_ = res["env"]
        ext = [v.e == plh.LO16 for k, v in env_.items() if k.startswith("lo_")] + [v.e == plh.HI16 for k, v in env_.items() if k.startswith("hi_")]
        def predict(m):
            fl = {f["id"]: {"taut": bool(f["taut"]), "contr": bool(f["contr"]),
                            "eqb": [S.model_int(m, f["eqb"][0]), S.model_int(m, f["eqb"][1])]} for f in res["flags"]}
            if ctx.str_calls:
                # some id on this path was generated from a symbolic threshold (negation of a node with mixed children builds an inner node whose
                # generated id contains str(value)): SX's id is a structural token (M5), not the real digest, so compare id-free
                return {"flags_multiset": sorted(([v["taut"], v["contr"], v["eqb"]] for v in fl.values()), key=repr)}
            return {"flags": fl}
        run.validate(ctx, conc, predict, extremes=z3.Or(ext) if ext else None)
        run.sample({"model": pl.show(model_spec), "part": "flags", "path_condition": [str(z3.simplify(c)) for c in ctx.pc][:6]})

    def on_path(ctx, res):
        run.path(ctx)
        env, comp, ivs, pres = res["env"], res["comp"], res["ivs"], res["pres"]

        def conc(m):
            return {"env": plh.conc_env(m, env), "completion": plh.conc_vals(m, comp),
                    "interval": {l: [S.model_int(m, a), S.model_int(m, b)] for l, (a, b) in ivs.items()},
                    "present": {l: bool(S.model_int(m, p.e)) if isinstance(p, S.SymBool) else p for l, p in pres.items()},
                    "children": {f["id"]: [S.model_int(m, y) for y in f["ys"]] for f in res["flags"]}}
        if res["err"] is not None:
            run.obligation(ctx, "raises", True, conc, extra=res["err"])
            return
        if spec["part"] == "flags":
            return _flags(ctx, res, conc)
        dec = res["interp"].decided
        for l, p in pres.items():
            present = dec.get(l, p if isinstance(p, bool) else None)
            if present is False:
                run.region("leaf-absent")
        if any((lo, hi) != (0, 1) for lo, hi in leaves.values()):
            run.region("integer-leaf")
        if any(v == -1 for v in ctx.fixed.values()):
            run.region("negative-sign")
        if "leaf-subrange" not in run.regions:
            r1, _ = ctx.query(z3.Or([z3.And(pp.e if isinstance(pp, S.SymBool) else z3.BoolVal(pp), ivs[l][0].e < ivs[l][1].e) for l, pp in pres.items()]))
            if r1 == "sat":
                run.region("leaf-subrange")
        if "leaf-constant" not in run.regions:
            r1, _ = ctx.query(z3.Or([z3.And(pp.e if isinstance(pp, S.SymBool) else z3.BoolVal(pp), ivs[l][0].e == ivs[l][1].e) for l, pp in pres.items()]))
            if r1 == "sat":
                run.region("leaf-constant")
        # soundness of returned bounds
        viol = []
        for nid, b in res["r"].items():
            t = res["ref"].get(nid)
            if t is None:
                viol.append(z3.BoolVal(True))
                continue
            lo, hi = S.term(b.lower), S.term(b.upper)
            if mu == "strict_lower":
                viol.append(z3.Or(t <= lo, t > hi))
            else:
                viol.append(z3.Or(t < lo, t > hi))
            if "non-constant-result" not in run.regions:
                rr, _ = ctx.query(lo < hi)
                if rr == "sat":
                    run.region("non-constant-result")
        if set(res["r"]) != set(res["ref"]):
            viol.append(z3.BoolVal(True))
        if res.get("ev") is not None and res["topid"] in res["ref"]:
            tt = res["ref"][res["topid"]]
            viol.append(z3.Or(tt < S.term(res["ev"].lower), tt > S.term(res["ev"].upper)))
        run.obligation(ctx, "bounds-contain-completion", z3.Or(viol), conc)
        run.validate(ctx, conc, lambda m: {"props": {k: [S.model_int(m, b.lower), S.model_int(m, b.upper)] for k, b in res["r"].items()}}, extremes=plh.extremes(env))
        run.sample({"model": pl.show(model_spec), "mode": spec["mode"], "path_condition": [str(z3.simplify(c)) for c in ctx.pc][:6]})

    st = S.explore(fn, on_path, max_paths=30000, wall=2400)
    return run.result(st)
