"""C07 — assuming values is equivalent to evaluating with them."""
import random
import z3

from sx import core as S, env as E, pl, plh, families as F

PROPERTY = "C07"
REGIONS = ["assume-leaf-constant", "assume-leaf-range", "assume-compound", "assume-top", "empty-assumption", "integer-leaf", "result-is-variable"]
BOUNDS = ("PL family skeletons (<=7 compounds); thresholds/signs symbolic on named nodes (|v|<=2^20); integer-leaf boxes symbolic in "
          "[-32768,32767]; assumption dictionary over <=3 seeded ids (leaves and compounds, top included) with symbolic presence and "
          "symbolic values (leaf: constant or sub-range inside the box; compound: constant 0/1); further interpretation = symbolic in-box "
          "constants for every leaf the assumption does not mention")
OUTSIDE = "larger skeletons; assumed ranges outside the leaf box; non-constant assumptions on compound ids; partial further interpretations"
FAMILY = "curated + seeded PL skeletons x assumed-id subsets x value forms"
ASSUMPTIONS = ["M4", "M5 structural", "M6", "M10", "each side runs on a freshly built model (C09's state leak must not pollute C07)"]
FORMS = ["int", "tuple", "bounds"]


def functions(ns):
    A = ns.pg.AtLeast
    return [A.assume, A.evaluate, A.evaluate_propositions, ns.puan.variable.assume, ns.puan.variable.evaluate, A.flatten]


def instantiations(tier, seed):
    rng = random.Random(seed * 211 + 1)
    out = []
    skels = F.pl_family(tier, seed, n_quick=15, n_thorough=250)
    for k, sk in enumerate(skels):
        names = F.ALT_NAMES[(k + seed) % len(F.ALT_NAMES)]
        m = F.rename(F.symbolize(sk), names)
        lv = list(pl.leaves(m))
        ids = pl.explicit_ids(m)
        pool = lv + ids
        # every assumed id carries a symbolic presence flag and value (forks multiply with the model's own forks): fewer of them on heavy models
        ncomp = len(pl.compounds(m))
        want = (2 if ncomp <= 5 else 1) if tier == 'quick' else (3 if ncomp <= 4 else (2 if ncomp <= 6 else 1))
        picked = rng.sample(pool, min(3, len(pool)))[:want]
        if k % 4 == 0 and m.get("id") and m["id"] not in picked:
            picked[-1] = m["id"]
        forms = {x: FORMS[(n + k) % 3] for n, x in enumerate(pool)}
        out.append({"model": m, "assumed": picked, "forms": forms, "warm": k % 3 == 1})
        if k % 5 == 4:
            out.append({"model": F.with_subclass_leaves(m), "assumed": picked, "forms": forms})
    base = F.symbolize(F.AL(2, F.a(), F.i(), F.AL(1, F.b(), F.c(), id="B", sign=1), id="A", sign=1))
    for mu in ("drop_assumption", "contain_strict"):
        out.append({"kind": "mutant", "mutant": mu, "model": base, "assumed": ["a", "i", "B"],
                    "forms": {"a": "int", "i": "tuple", "b": "int", "c": "int", "B": "int", "A": "int"}})
    return out


def run_inst(spec, run):
    ns = E.load_repo()
    model_spec = spec["model"]
    mu = spec.get("mutant")
    rep = pl.build(ns, model_spec, plh.mid_env(model_spec))
    if rep.errors() != []:
        return run.skipped("model fails the repository's own validation (errors() != [])")
    leaves = pl.leaves(model_spec)
    cids = set(pl.explicit_ids(model_spec))

    def fn(ctx):
        env = plh.sym_env(ctx, model_spec)
        m0 = pl.build(ns, model_spec, env)
        nodes = plh.walk(ns, m0)
        x, fent, rent, fixed, comp = {}, {}, {}, {}, {}
        pres = {}
        for l, (lo, hi) in leaves.items():
            bl, bh = S.term(pl.P(env, lo)), S.term(pl.P(env, hi))
            xv = ctx.int("x_" + l)
            x[l] = xv
            if l in spec["assumed"]:
                p = ctx.bool("p_" + l)
                il, ih = ctx.int("il_" + l), ctx.int("ih_" + l)
                if spec["forms"][l] == "int":
                    ctx.assume(il.e == ih.e)
                ctx.assume(z3.And(bl <= il.e, il.e <= ih.e, ih.e <= bh))
                ctx.assume(z3.If(p.e, z3.And(il.e <= xv.e, xv.e <= ih.e), z3.And(bl <= xv.e, xv.e <= bh)))
                fent[l] = (p, plh.form(ns, spec["forms"][l], il, ih))
                rent[l] = (~p, plh.form(ns, FORMS[(len(l) + 1) % 3], xv))
                pres[l] = (p, il, ih)
            else:
                ctx.assume(z3.And(bl <= xv.e, xv.e <= bh))
                rent[l] = (True, plh.form(ns, spec["forms"].get(l, "int"), xv))
        for cid in spec["assumed"]:
            if cid in cids:
                p = ctx.bool("p_" + cid)
                o = ctx.int("o_" + cid, 0, 1)
                fent[cid] = (p, plh.form(ns, spec["forms"][cid], o))
                fixed[cid] = (lambda r, p=p, o=o: z3.If(p.e, o.e, r))
                pres[cid] = (p, o, o)
        zx = {k: v.e for k, v in x.items()}
        memo = {}
        ref = {nid: pl.obj_sem(ns, objs[0], zx, fixed, memo) for nid, objs in nodes.items()}
        Fd = lambda: E.SymDict(fent)     # noqa
        Rd = lambda: E.SymDict(rent)     # noqa
        m1 = pl.build(ns, model_spec, env)
        m2 = pl.build(ns, model_spec, env)
        err = a = r1 = r2 = None
        f1 = Fd()
        try:
            if spec.get("warm"):
                plh.warm(ns, m1)
                plh.warm(ns, m2)
            a = m1.assume(f1)
            if mu == "drop_assumption":
                r1 = m1.__class__.evaluate(pl.build(ns, model_spec, env), Rd())
            else:
                r1 = a.evaluate(Rd())
            r2 = m2.evaluate(E.UnionDict(Fd(), Rd()))
        except Exception as e:    # noqa
            err = "%s: %s" % (type(e).__name__, e)
        return dict(env=env, x=x, pres=pres, ref=ref, a=a, r1=r1, r2=r2, err=err, f1=f1, topid=m0.id)

    def on_path(ctx, res):
        run.path(ctx)
        env, x, pres = res["env"], res["x"], res["pres"]

        def conc(m):
            return {"env": plh.conc_env(m, env), "x": plh.conc_vals(m, x),
                    "assume": {k: [bool(S.model_int(m, p.e)), S.model_int(m, a), S.model_int(m, b)] for k, (p, a, b) in pres.items()}}
        if res["err"] is not None:
            run.obligation(ctx, "raises", True, conc, extra=res["err"])
            return
        dec = res["f1"].decided
        if not any(dec.values()):
            run.region("empty-assumption")
        for k, v in dec.items():
            if v and k in cids:
                run.region("assume-compound")
                if k == res["topid"]:
                    run.region("assume-top")
            if v and k in leaves:
                if "assume-leaf-range" not in run.regions:
                    rr, _ = ctx.query(pres[k][1].e < pres[k][2].e)
                    if rr == "sat":
                        run.region("assume-leaf-range")
                run.region("assume-leaf-constant")
        if any((lo, hi) != (0, 1) for lo, hi in leaves.values()):
            run.region("integer-leaf")
        r1, r2, a = res["r1"], res["r2"], res["a"]
        run.obligation(ctx, "assume-then-evaluate == evaluate-on-union",
                       z3.Or(S.term(r1.lower) != S.term(r2.lower), S.term(r1.upper) != S.term(r2.upper)), conc)
        # containment for every node of the assumed model that the assumption does not mention
        viol = []
        if issubclass(a.__class__, ns.puan.variable):
            run.region("result-is-variable")
        for nd in a.flatten():
            if dec.get(nd.id):
                continue
            t = res["ref"].get(nd.id)
            if t is None:
                viol.append(z3.BoolVal(True))
                continue
            lo, hi = S.term(nd.bounds.lower), S.term(nd.bounds.upper)
            viol.append(z3.Or(t < lo, t > hi) if mu != "contain_strict" else z3.Or(t <= lo, t > hi))
        run.obligation(ctx, "unmentioned-bounds-contain", z3.Or(viol) if viol else z3.BoolVal(False), conc)
        run.validate(ctx, conc, lambda m: {"r1": [S.model_int(m, r1.lower), S.model_int(m, r1.upper)],
                                           "r2": [S.model_int(m, r2.lower), S.model_int(m, r2.upper)]}, extremes=plh.extremes(env))
        run.sample({"model": pl.show(model_spec), "assumed": spec["assumed"], "path_condition": [str(z3.simplify(c)) for c in ctx.pc][:6]})

    st = S.explore(fn, on_path, max_paths=30000, wall=2400)
    return run.result(st)
