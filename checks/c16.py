"""C16 — JSON round trip preserves meaning, explicit ids and defaults."""
import copy
import json
import random
import z3

from sx import core as S, env as E, pl, plh, families as F, cfg, known


def _clear_caches(ns_):
    """empty the configurator-level caches if the current tree has any (lru_cache on the class, pinned tree); a no-op for per-instance caches"""
    for name in ("ge_polyhedron", "leafs"):
        f = ns_.cc.StingyConfigurator.__dict__.get(name)
        f = getattr(f, "fget", f)
        cc_ = getattr(f, "cache_clear", None)
        if cc_ is not None:
            cc_()

PROPERTY = "C16"
REGIONS = ["plog-model", "configurator", "AtLeast", "AtMost", "All", "Any", "Xor", "XNor", "Imply", "Not", "cAny-default", "cXor-default",
           "explicit-sign", "integer-leaf", "generated-id-top", "str-leaves"]
BOUNDS = ("PL family skeletons (<=7 compounds) with symbolic thresholds (|v|<=2^20) and symbolic explicit signs on named AtLeast nodes, symbolic "
          "integer-leaf boxes in [-32768,32767], symbolic in-box leaf values; CFG family configurators (concrete) with defaults; dict-level round trip "
          "is symbolic, the json.dumps/loads leg runs on concrete representatives of explored paths (translator validation) and in every replay")
OUTSIDE = "larger models; floats; the open known-finding classes listed in known_findings.json"
FAMILY = "curated + seeded PL skeletons (variable and str leaves) + CFG configurators"
ASSUMPTIONS = ["M4", "M5 structural", "M6", "M9: json.dumps/loads only on representatives"]


def functions(ns):
    pg, cc, puan = ns.pg, ns.cc, ns.puan
    return [pg.AtLeast.to_json, pg.AtLeast.from_json, pg.AtMost.to_json, pg.AtMost.from_json, pg.All.to_json, pg.All.from_json, pg.Any.to_json,
            pg.Any.from_json, pg.Xor.to_json, pg.Xor.from_json, pg.XNor.to_json, pg.XNor.from_json, pg.Imply.to_json, pg.Imply.from_json,
            pg.Not.from_json, pg.from_json, puan.variable.to_json, puan.variable.from_json, cc.Any.to_json, cc.Any.from_json, cc.Xor.to_json,
            cc.Xor.from_json, cc.StingyConfigurator.from_json, cc.StingyConfigurator.to_json]


def instantiations(tier, seed):
    rng = random.Random(seed * 1409 + 5)
    out = []
    skels = F.pl_family(tier, seed, n_quick=20, n_thorough=300)
    # explicit-sign and negation-made nodes
    skels += [F.AL(0, F.a(), F.b(), id="A", sign=1), F.AL(0, F.a(), F.b(), sign=1), F.N("Not", F.AM(-1, F.c(), F.d())),
              F.N("Imply", F.a(), F.b()), F.N("Imply", F.N("All", F.a(), F.b()), F.c(), id="R"),
              F.N("XNor", F.N("Not", F.AM(0, F.a())), id="X"), F.N("XNor", F.N("All", F.a(), F.b(), id="B"), F.N("Any", F.c(), F.d(), id="C")),
              F.N("All", F.N("XNor", F.a(), F.b()), F.N("Xor", F.c(), F.d()), id="A"),
              # Imply whose condition is a generated-id proposition over exactly one leaf (not equivalent to "x >= 1")
              F.N("Imply", F.N("Not", F.a()), F.b()), F.N("Imply", F.AL(2, F.i(), sign=None), F.b(), id="R"), F.N("Imply", F.AM(1, F.j()), F.c()),
              F.N("All", F.N("Imply", F.AM(0, F.a()), F.b()), F.N("Imply", F.N("Any", F.c()), F.d()), id="A"),
              F.N("Imply", F.AL(-1, F.j(), sign=-1), F.N("Not", F.b())),
              # single-child connectives everywhere
              F.N("All", F.N("Any", F.a()), F.N("All", F.b()), F.AM(0, F.c()), F.N("Xor", F.d(), F.a()), id="A"),
              F.N("Not", F.N("Any", F.a())), F.N("XNor", F.a()), F.N("Any", F.N("Not", F.N("All", F.a())), F.b(), id="A")]
    for k, sk in enumerate(skels):
        names = F.ALT_NAMES[(k + seed) % len(F.ALT_NAMES)]
        m = F.rename(F.symbolize(sk), names)
        if k % 3 == 2:
            for c in pl.compounds(m):
                for ch in c["ch"]:
                    if ch["t"] == "var" and (ch.get("lo", 0), ch.get("hi", 1)) == (0, 1):
                        ch["str"] = True
        out.append({"model": m, "kind_": "plog"})
    for c in cfg.cfg_family(tier, seed, n_quick=6, n_thorough=100):
        out.append({"model": c, "kind_": "cfg"})
        c2 = copy.deepcopy(c)
        for nd in pl.compounds(c2):
            if nd["t"] in ("cAny", "cXor") and rng.random() < 0.5:
                nd["id"] = None
        c2["id"] = None if rng.random() < 0.5 else c2["id"]
        out.append({"model": c2, "kind_": "cfg"})
    for mu in ("value_off", "ids_ignored"):
        out.append({"kind": "mutant", "mutant": mu, "model": F.symbolize(F.AL(2, F.a(), F.i(), F.AL(1, F.b(), F.c(), id="B", sign=1), id="A", sign=1)), "kind_": "plog"})
    return out


def count_ids(j, acc=None):
    """(number of compound dicts carrying an 'id' key, number of compound dicts) in a JSON dictionary"""
    acc = [0, 0] if acc is None else acc
    if isinstance(j, dict):
        if "type" in j or "propositions" in j or "condition" in j or "consequence" in j or "proposition" in j:
            acc[1] += 1
            if "id" in j:
                acc[0] += 1
        for k, v in j.items():
            if k != "default":
                count_ids(v, acc)
    elif isinstance(j, list):
        for v in j:
            count_ids(v, acc)
    return acc


def sign_lost(ns, node):
    """known class 'sign-not-serialised': a node of exact class AtLeast whose sign differs from the default derived from its value"""
    out = []
    for nid, objs in plh.walk(ns, node).items():
        for o in objs:
            if type(o).__name__ == "AtLeast":
                v, s = S.term(o.value), S.term(o.sign)
                out.append(s != z3.If(v > 0, 1, -1))
    return z3.simplify(z3.Or(out)) if out else z3.BoolVal(False)


def _imply_str(spec):
    return any(c["t"] == "Imply" and c["ch"][1]["t"] == "var" and c["ch"][1].get("str") for c in pl.compounds(spec))


def _xnor_compound(spec):
    return any(c["t"] == "XNor" and any(ch["t"] != "var" for ch in c["ch"]) for c in pl.compounds(spec))


def _cfg_gen_default(spec):
    return any(c["t"] in ("cAny", "cXor") and c.get("default") and not c.get("id") for c in pl.compounds(spec))


def _negmix(ns, spec, env):
    """Imply.to_json re-negates its stored (already negated) condition; XNor.to_json negates a branch: the C05 defect site can be reached"""
    kn = z3.BoolVal(False)
    for c in pl.compounds(spec):
        if c["t"] == "Imply" and c["ch"][0]["t"] != "var":
            o = pl.build(ns, c["ch"][0], env)
            kn = z3.Or(kn, known.negate_mixed(ns, o))
            try:
                kn = z3.Or(kn, known.negate_mixed(ns, o.negate()))
            except Exception:   # noqa
                pass
        if c["t"] == "Not" and c["ch"][0]["t"] != "var":
            kn = z3.Or(kn, known.negate_mixed(ns, pl.build(ns, c["ch"][0], env)))
    return z3.simplify(kn)


def run_inst(spec, run):
    ns = E.load_repo()
    mu = spec.get("mutant")
    model_spec = spec["model"]
    iscfg = spec["kind_"] == "cfg"
    _clear_caches(ns)
    try:
        rep = pl.build(ns, model_spec, plh.mid_env(model_spec))
    except Exception as e:   # noqa
        return run.skipped("constructor rejects the instantiation: %s" % type(e).__name__)
    if rep.errors() != []:
        return run.skipped("model fails the repository's own validation (errors() != [])")
    leaves_spec = pl.leaves(model_spec)

    def fn(ctx):
        env = plh.sym_env(ctx, model_spec)
        vals = plh.leaf_syms(ctx, model_spec, env)
        zvals = {k: v.e for k, v in vals.items()}
        m0 = pl.build(ns, model_spec, env)
        ref = pl.obj_sem(ns, m0, zvals)
        nodes0 = plh.walk(ns, m0)
        kn = {"sign-not-serialised": sign_lost(ns, m0), "imply-str-consequence": z3.BoolVal(_imply_str(model_spec)),
              "xnor-compound-arguments": z3.BoolVal(_xnor_compound(model_spec)), "cfg-generated-id-emitted": z3.BoolVal(_cfg_gen_default(model_spec)),
              "negate-mixed": _negmix(ns, model_spec, env)}
        m1 = pl.build(ns, model_spec, env)
        err = j = m2 = val = None
        stage = "to_json"
        try:
            j = m1.to_json()
            stage = "from_json"
            m2 = ns.cc.StingyConfigurator.from_json(j) if iscfg else ns.pg.from_json(j)
            stage = "evaluate"
            val = m2.evaluate(dict(vals))
        except Exception as e:   # noqa
            err = "%s in %s: %s" % (type(e).__name__, stage, e)
        return dict(env=env, vals=vals, ref=ref, nodes0=nodes0, kn=kn, m0=m0, j=j, m2=m2, val=val, err=err)

    def on_path(ctx, d):
        run.path(ctx)
        env, vals = d["env"], d["vals"]

        def conc(m):
            return {"env": plh.conc_env(m, env), "vals": plh.conc_vals(m, vals)}
        kn = d["kn"]
        run.region("configurator" if iscfg else "plog-model")
        for c in pl.compounds(model_spec):
            if c["t"] in REGIONS:
                run.region(c["t"])
            if c["t"] == "cAny" and c.get("default"):
                run.region("cAny-default")
            if c["t"] == "cXor" and c.get("default"):
                run.region("cXor-default")
            if c["t"] == "AtLeast" and c.get("sign") is not None:
                run.region("explicit-sign")
            if any(ch.get("str") for ch in c["ch"]):
                run.region("str-leaves")
        if any(b != (0, 1) for b in leaves_spec.values()):
            run.region("integer-leaf")
        if d["err"] is not None:
            run.obligation(ctx, "raises", True, conc, known=kn, extra=d["err"])
            return
        m0, m2, j, val = d["m0"], d["m2"], d["j"], d["val"]
        if m0.generated_id:
            run.region("generated-id-top")
        want = d["ref"]
        if mu == "value_off":
            want = 1 - want
        run.obligation(ctx, "meaning-preserved", z3.Or(S.term(val.lower) != want, S.term(val.upper) != want), conc, known=kn)
        # leaves and boxes
        nodes2 = plh.walk(ns, m2)
        lv0 = {k: o[0] for k, o in d["nodes0"].items() if issubclass(o[0].__class__, ns.puan.variable)}
        lv2 = {k: o[0] for k, o in nodes2.items() if issubclass(o[0].__class__, ns.puan.variable)}
        sv = []
        if set(lv0) != set(lv2):
            sv.append(z3.BoolVal(True))
        else:
            for k in lv0:
                sv.append(z3.Or(S.term(lv0[k].bounds.lower) != S.term(lv2[k].bounds.lower), S.term(lv0[k].bounds.upper) != S.term(lv2[k].bounds.upper)))
        run.obligation(ctx, "same-leaves-and-bounds", z3.Or(sv) if sv else z3.BoolVal(False), conc, known=kn)
        # explicit ids kept, none emitted for generated ones
        exp0 = {k for k, o in d["nodes0"].items() if k not in lv0 and not o[0].generated_id}
        exp2 = {k for k, o in nodes2.items() if k not in lv2 and not o[0].generated_id}
        idv = []
        if mu != "ids_ignored":
            if not exp0 <= exp2:
                idv.append("explicit ids lost: %s" % sorted(exp0 - exp2))
            if ("id" in j) != (not m0.generated_id):
                idv.append("top-level 'id' key %s although generated_id=%s" % ("present" if "id" in j else "absent", m0.generated_id))
            gen2 = {k for k, o in nodes2.items() if k not in lv2 and o[0].generated_id}
            if exp2 - exp0:
                idv.append("ids that were generated became explicit after the round trip: %s" % sorted(map(str, exp2 - exp0))[:3])
        else:
            idv.append("mutant") if exp0 else None
        if idv:
            run.obligation(ctx, "ids", True, conc, known=kn, extra="; ".join(idv))
        if iscfg:
            cv = []
            try:
                if m0.default_prios != m2.default_prios:
                    cv.append("default_prios differ")
                d0 = sorted((k, [v.id for v in getattr(o[0], "default", [])]) for k, o in d["nodes0"].items() if getattr(o[0], "default", None))
                d2 = sorted((k, [v.id for v in getattr(o[0], "default", [])]) for k, o in nodes2.items() if getattr(o[0], "default", None))
                if d0 != d2:
                    cv.append("defaults differ: %s vs %s" % (d0, d2))
                _clear_caches(ns)
                P0 = m0.ge_polyhedron
                _clear_caches(ns)
                P2 = m2.ge_polyhedron
                import numpy as np
                if np.asarray(P0).tolist() != np.asarray(P2).tolist() or [v.id for v in P0.variables] != [v.id for v in P2.variables] or \
                        list(P0.default_prio_vector) != list(P2.default_prio_vector):
                    cv.append("polyhedron differs")
            except Exception as e:   # noqa
                cv.append("raised %s: %s" % (type(e).__name__, e))
            if cv:
                run.obligation(ctx, "configurator-defaults-and-polyhedron", True, conc, known=kn, extra="; ".join(cv))
        run.validate(ctx, conc, lambda m: {"val": [S.model_int(m, val.lower), S.model_int(m, val.upper)]}, extremes=plh.extremes(env), known=kn)
        run.sample({"model": pl.show(model_spec), "json_keys": sorted(j.keys()), "path_condition": [str(z3.simplify(c)) for c in ctx.pc][:5]})

    st = S.explore(fn, on_path, max_paths=30000, wall=2400)
    return run.result(st)
