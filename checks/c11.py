"""C11 — polyhedron reduction preserves the integer solution set."""
import random
import numpy as np
import z3

from sx import core as S, env as E, npshim, mat
from checks.c12 import setup, conc_inputs, lin, nd_warm

PROPERTY = "C11"
REGIONS = ["row-reported", "column-forced", "second-fixpoint-iteration", "all-columns-removed", "all-rows-removed", "nothing-reducible",
           "symbolic-box", "coef-magnitude>1", "infeasible-possible"]
BOUNDS = ("coefficient matrices up to 3x3 with entries in {-3..3} (curated + seeded, incl. big-M rows as the logic layer produces); b symbolic "
          "|b|<=2^17; boxes inside [-32768,32767] (all boolean / one symbolic column / mixed / all symbolic up to 2x2); a symbolic in-box point; "
          "the fix-point loop of reducable_rows_and_columns is unrolled by execution (iterations observed are recorded)")
OUTSIDE = "larger matrices; all-symbolic boxes beyond 2x2 (path explosion, stated in DESIGN.md); int64 overflow; float rounding beyond 2^53"
FAMILY = "coefficient patterns x box families x {reducable_rows, reducable_columns_approx, reducable_rows_and_columns+reduce}"
ASSUMPTIONS = ["M1", "M2", "M3", "M4", "forced values are unique so no existential quantifier is needed (3a/3b use the forced values as witnesses)"]


def functions(ns):
    G = ns.pnd.ge_polyhedron
    return [G.reducable_rows, G.reducable_columns_approx, G.tighten_column_bounds, G.reduce_columns, G.reduce_rows,
            G.reducable_rows_and_columns, G.reduce, G.row_bounds, G.A_min, G.A_max]


def instantiations(tier, seed):
    rng = random.Random(seed * 701 + 3)
    out = []
    As = list(mat.CURATED_A)
    n = 10 if tier == "quick" else 200
    for _ in range(n):
        As.append(mat.random_A(rng, max_rows=2 if tier == "quick" else 3, max_cols=3))
    for k, A in enumerate(As):
        nc = len(A[0])
        kinds = [["bool", "onesym", "mixed"][k % 3]] if tier == "quick" else ["bool", "onesym", "mixed"]
        for kind in kinds:
            bx = mat.boxes_for(kind, nc, rng)
            # path explosion guard (DESIGN.md C11): at most one symbolic box beyond 2x2 in the quick tier, two in the thorough tier
            cap = 1 if tier == "quick" else 2
            if len(A) * nc > 6:
                cap = 0 if tier == "quick" else 1      # measured: 3x3 with two symbolic boxes exceeds 25 min on one core (DESIGN.md 2.9)
            if len(A) * nc > 4:
                seen = 0
                for j in range(nc):
                    if bx[j] == "sym":
                        seen += 1
                        if seen > cap:
                            bx[j] = [-2, 3]
            for part in ("rows", "cols", "reduce"):
                out.append({"A": A, "boxes": bx, "part": part, "warm": k % 2 == 1})
        if len(A) * nc <= 4:
            out.append({"A": A, "boxes": ["sym"] * nc, "part": "reduce"})
    # chains that need several rounds of the fix-point loop, in every row order (a row removed early above a row that becomes reducible later)
    import itertools as _it
    chain = [([1, 0, 0, 0], "a>=1"), ([0, 1, 1, 0], "b+c>=1"), ([-1, 0, 0, 1], "d>=a")]
    for perm in _it.permutations(range(3)):
        A = [chain[i][0] for i in perm]
        out.append({"A": A, "boxes": [[0, 1]] * 4, "part": "reduce", "warm": False})
    out.append({"A": [[1, 0, 0, 0], [0, 1, 1, 0], [-1, 0, 0, 1]], "boxes": [[-2, 2], [0, 1], [0, 1], "sym"], "part": "reduce", "warm": True})
    out.append({"A": [[0, 2, 1, 0], [1, 0, 0, 0], [-1, 0, 0, 1], [0, 0, -1, 1]], "boxes": [[0, 1]] * 4, "part": "reduce", "warm": False})
    # the reduction queries asked once before the operation under test, on the same polyhedron object
    for k, (A, bx) in enumerate([([[1, 0], [-1, -1]], [[0, 5], [0, 1]]), ([[1, 1, 1]], [[0, 1]] * 3), ([[2, 3], [-3, 1]], ["sym", [0, 1]]),
                                 ([[1, -2, 3], [2, 0, -1]], [[0, 1], [-2, 3], [0, 1]]), ([[-1, -1], [1, 1]], [[-2, 2], "sym"])]):
        for part in ("rows", "reduce") if tier == "thorough" else (["rows", "reduce"][k % 2],):
            out.append({"A": A, "boxes": bx, "part": part, "warm": "queries"})
    for mu in ("forced_off", "lost_solution"):
        out.append({"kind": "mutant", "mutant": mu, "A": [[-2, 1, 1], [1, 1, 0]], "boxes": [[0, 1], [0, 1], "sym"], "part": "reduce"})
    return out


def isnan(v):
    return isinstance(v, float) and v != v


def run_inst(spec, run):
    ns = E.load_repo()
    mu = spec.get("mutant")
    npshim.install(ns.pnd)
    iters = {"n": 0}
    orig_rc = ns.pnd.ge_polyhedron.reduce_columns

    def counting_rc(self, cv):
        iters["n"] += 1
        return orig_rc(self, cv)
    try:
        def fn(ctx):
            A, b, los, his, xs, P = setup(ctx, ns, spec)
            err = None
            out = {}
            iters["n"] = 0
            try:
                if spec.get("warm"):
                    nd_warm(P)
                if spec.get("warm") == "queries":
                    # every reduction query once before the operation under test, on the same object (results discarded)
                    P.tighten_column_bounds()
                    P.reducable_columns_approx()
                    P.reducable_rows()
                    P.column_bounds()
                if spec["part"] == "rows":
                    out["rr"] = P.reducable_rows()
                elif spec["part"] == "cols":
                    out["fc"] = P.reducable_columns_approx()
                else:
                    ns.pnd.ge_polyhedron.reduce_columns = counting_rc
                    try:
                        rows, cols = P.reducable_rows_and_columns()
                    finally:
                        ns.pnd.ge_polyhedron.reduce_columns = orig_rc
                    out["iters"] = iters["n"]
                    out["rows"], out["cols"] = rows, cols
                    out["R"] = P.reduce(rows_vector=rows, columns_vector=cols)
            except Exception as e:   # noqa
                err = "%s: %s" % (type(e).__name__, e)
            return dict(A=A, b=b, los=los, his=his, xs=xs, out=out, err=err, P=P)

        def on_path(ctx, res):
            run.path(ctx)
            A, b, los, his, xs = res["A"], res["b"], res["los"], res["his"], res["xs"]
            nr, nc = len(A), len(xs)

            def conc(m):
                return conc_inputs(m, b, los, his, xs)
            if res["err"] is not None:
                run.obligation(ctx, "raises", True, conc, extra=res["err"])
                return
            if any(bx == "sym" for bx in spec["boxes"]):
                run.region("symbolic-box")
            if any(abs(v) > 1 for row in A for v in row):
                run.region("coef-magnitude>1")
            rowok = [lin(A, i, xs) >= b[i].e for i in range(nr)]
            feas = z3.And(rowok)
            if "infeasible-possible" not in run.regions and ctx.query(z3.Not(feas))[0] == "sat":
                run.region("infeasible-possible")
            out = res["out"]
            if spec["part"] == "rows":
                rr = [bool(v) for v in out["rr"]]
                if any(rr):
                    run.region("row-reported")
                run.obligation(ctx, "reported-row-holds-everywhere", z3.Or([z3.Not(rowok[i]) for i in range(nr) if rr[i]] or [z3.BoolVal(False)]), conc)
                run.validate(ctx, conc, lambda m: {"rr": [int(v) for v in rr]})
            elif spec["part"] == "cols":
                fc = list(out["fc"])
                viol = []
                for j in range(nc):
                    if not isnan(fc[j]):
                        run.region("column-forced")
                        viol.append(xs[j].e != S.term(fc[j]))
                run.obligation(ctx, "forced-column-value", z3.And(feas, z3.Or(viol)) if viol else z3.BoolVal(False), conc)
                run.validate(ctx, conc, lambda m: {"fc": [None if isnan(v) else S.model_int(m, v) for v in fc]})
            else:
                rows, cols, R = out["rows"], list(out["cols"]), out["R"]
                rmask = [bool(v) for v in rows]
                forced = {j: S.term(cols[j]) for j in range(nc) if not isnan(cols[j])}
                if out["iters"] >= 2:
                    run.region("second-fixpoint-iteration")
                if any(rmask):
                    run.region("row-reported")
                if forced:
                    run.region("column-forced")
                if len(forced) == nc:
                    run.region("all-columns-removed")
                if all(rmask):
                    run.region("all-rows-removed")
                if not forced and not any(rmask):
                    run.region("nothing-reducible")
                rem_c = [j for j in range(nc) if j not in forced]
                rem_r = [i for i in range(nr) if not rmask[i]]
                struct = []
                if R.shape != (len(rem_r), len(rem_c) + 1):
                    struct.append("reduced shape %s, expected %s" % (R.shape, (len(rem_r), len(rem_c) + 1)))
                else:
                    want_v = [0] + ["v%d" % j for j in rem_c]
                    got_v = [v.id for v in R.variables]
                    if got_v != want_v:
                        struct.append("reduced variables %s, expected %s" % (got_v, want_v))
                    got_i = [v.id for v in R.index]
                    if got_i != rem_r:
                        struct.append("reduced index %s, expected rows %s" % (got_i, rem_r))
                if struct:
                    run.obligation(ctx, "variables-and-index", True, conc, extra="; ".join(struct))
                    return
                # rows of the reduced system over the remaining columns of the SAME point x
                red_ok = []
                for ii in range(len(rem_r)):
                    lhs = z3.IntVal(0)
                    for jj, j in enumerate(rem_c):
                        lhs = lhs + S.term(R[ii, jj + 1]) * xs[j].e
                    red_ok.append(lhs >= S.term(R[ii, 0]))
                red_feas = z3.And(red_ok) if red_ok else z3.BoolVal(True)
                at_forced = z3.And([xs[j].e == f for j, f in forced.items()]) if forced else z3.BoolVal(True)
                if mu == "forced_off":
                    at_forced = z3.And([xs[j].e == f + 1 for j, f in forced.items()]) if forced else z3.BoolVal(False)
                # 3a: every solution has the forced values and its remaining part solves the reduced system
                run.obligation(ctx, "solutions-survive", z3.And(feas, z3.Not(z3.And(at_forced, red_feas))), conc)
                # 3b: every in-box solution of the reduced system, extended by the forced values, solves the original (forced values in box)
                xsub = [(xs[j].e, forced[j]) for j in forced]
                feas_sub = z3.substitute(feas, *xsub) if xsub else feas
                inbox_f = z3.And([z3.And(forced[j] >= los[j].e, forced[j] <= his[j].e) for j in forced]) if forced else z3.BoolVal(True)
                v3b = z3.And(red_feas, z3.Not(z3.And(feas_sub, inbox_f)))
                if mu == "lost_solution":
                    v3b = z3.And(red_feas, z3.Not(z3.And(feas_sub, inbox_f, xs[rem_c[0]].e > los[rem_c[0]].e))) if rem_c else v3b
                run.obligation(ctx, "nothing-gained", v3b, conc)
                edge = [l.e == -32768 for l in los if not z3.is_int_value(z3.simplify(l.e))] + [u.e == 32767 for u in his if not z3.is_int_value(z3.simplify(u.e))]
                run.validate(ctx, conc, lambda m: {"rows": [int(v) for v in rmask], "cols": [None if isnan(v) else S.model_int(m, v) for v in cols],
                                                   "R": [[S.model_int(m, R[i, j]) for j in range(R.shape[1])] for i in range(R.shape[0])]}, extremes=(z3.Or(edge) if edge else None))
            run.sample({"A": A, "boxes": spec["boxes"], "part": spec["part"], "path_condition": [str(z3.simplify(c)) for c in ctx.pc][:5]})

        st = S.explore(fn, on_path, max_paths=20000, wall=1500)
        return run.result(st)
    finally:
        ns.pnd.ge_polyhedron.reduce_columns = orig_rc
        npshim.uninstall(ns.pnd)
