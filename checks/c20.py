"""C20 — id/position bridges are faithful."""
import random
import numpy as np
import z3

from sx import core as S, env as E, npshim

PROPERTY = "C20"
REGIONS = ["construct-int-dtype", "construct-float-dtype", "construct-callable-default", "id-absent-default-used",
           "indices", "to_list-1d", "to_list-2d", "from_list-bool", "from_list-int", "from_list-nested", "linalg", "linalg-after-in-place-edit", "non-string-id"]
BOUNDS = ("variable lists of length <=4 mixing str, int, unicode and tuple-string ids; dictionaries over (column ids + 2 foreign ids) with symbolic "
          "presence flags and symbolic values |v|<=2^20; variable boxes symbolic in [-32768,32767]; dtypes int64/int32/float64/float32; default None or "
          "callable; 0/1 array entries symbolic; lists: every sub-sequence of a <=4-element candidate sequence (presence flags decided per path); "
          "matrices <=2x3 with symbolic entries")
OUTSIDE = "longer lists; duplicate ids; float VALUES in dictionaries; numpy casting of out-of-range integers into int32"
FAMILY = "id lists x dtype x default kind x function"
ASSUMPTIONS = ["M1 numpy object-dtype shim (requested dtype only influences construct's default branch, which is executed for real)", "M4", "M10",
               "from_list: ids are concrete strings; only membership/position is symbolic (DESIGN.md C20 honest note)"]
IDLISTS = [["a", "b", "c"], ["x", 4, "y"], ["é", "ñ", "z", "a"], ["('b', 'c')", "a"], [7, 8], ["item-1", "Item_2", "3"]]
FOREIGN = ["__other__", 99]
DTYPES = ["int64", "int32", "float64", "float32"]


def functions(ns):
    V, G, B, I = ns.pnd.variable_ndarray, ns.pnd.ge_polyhedron, ns.pnd.boolean_ndarray, ns.pnd.integer_ndarray
    return [V.construct, V.variable_indices, V.boolean_variable_indices, V.integer_variable_indices, B.to_list, B.from_list, I.from_list,
            G.A, G.b, G.to_linalg]


def instantiations(tier, seed):
    rng = random.Random(seed * 911 + 1)
    out = []
    for k, ids in enumerate(IDLISTS):
        for dt in (DTYPES if tier == "thorough" else [DTYPES[k % 4], DTYPES[(k + 2) % 4]]):
            for dflt in ("none", "callable"):
                out.append({"part": "construct", "ids": ids, "dtype": dt, "default": dflt})
        out.append({"part": "indices", "ids": ids})
        out.append({"part": "to_list", "ids": ids, "nd": 1})
        out.append({"part": "to_list", "ids": ids[:3], "nd": 2})
        out.append({"part": "from_list", "ids": [str(i) for i in ids], "cls": "boolean", "nested": False})
        out.append({"part": "from_list", "ids": [str(i) for i in ids], "cls": "integer", "nested": False})
        out.append({"part": "from_list", "ids": [str(i) for i in ids][:3], "cls": ["boolean", "integer"][k % 2], "nested": True})
        out.append({"part": "linalg", "ids": ids, "rows": 1 + k % 2})
        if k % 2 == 0:
            out.append({"part": "linalg", "ids": ids[:2], "rows": 1 + (k // 2) % 2, "edit": True})
    # ids that differ only by their type (generated integer ids next to user string ids): "arbitrary ids incl. non-string"
    for k, ids in enumerate([[0, 1, "0", "1", "a"], ["x", 4, "4"], [2, "2", 10, "10"]]):
        out.append({"part": "from_list", "ids": ids, "cls": "boolean", "nested": False})
        out.append({"part": "from_list", "ids": ids, "cls": "integer", "nested": False})
        out.append({"part": "from_list", "ids": ids[:3], "cls": ["boolean", "integer"][k % 2], "nested": True})
        out.append({"part": "to_list", "ids": ids, "nd": 1})
        out.append({"part": "indices", "ids": ids})
        out.append({"part": "construct", "ids": ids, "dtype": DTYPES[k % 4], "default": "none"})
    for mu in ("shifted_column", "default_upper"):
        out.append({"kind": "mutant", "mutant": mu, "part": "construct", "ids": ["a", "b", "c"], "dtype": "int64", "default": "none"})
    return out


class SubList(list):
    """a list that is a symbolic sub-sequence of `cands` (presence flags decided lazily, all at first use)"""

    def __init__(self, cands, flags):
        super().__init__()
        self._c, self._f, self._done = cands, flags, False

    def _fix(self):
        if not self._done:
            self._done = True
            for c, f in zip(self._c, self._f):
                if bool(f):
                    list.append(self, c)

    def __len__(self):
        self._fix()
        return list.__len__(self)

    def __getitem__(self, i):
        self._fix()
        return list.__getitem__(self, i)

    def __contains__(self, x):
        self._fix()
        return list.__contains__(self, x)

    def index(self, x, *a):
        self._fix()
        return list.index(self, x, *a)

    def __iter__(self):
        self._fix()
        return list.__iter__(self)


def run_inst(spec, run):
    ns = E.load_repo()
    mu = spec.get("mutant")
    puan, pnd = ns.puan, ns.pnd
    ids = spec["ids"]
    n = len(ids)
    part = spec["part"]
    npshim.install(pnd)
    try:
        def mkvars(ctx):
            los = [ctx.int("l%d" % j, -32768, 32767) for j in range(n)]
            his = [ctx.int("u%d" % j, -32768, 32767) for j in range(n)]
            for l, u in zip(los, his):
                ctx.assume(l.e <= u.e)
            return los, his, [puan.variable(ids[j], bounds=(los[j], his[j])) for j in range(n)]

        def fn(ctx):
            d = dict(part=part)
            err = None
            try:
                if part == "construct":
                    los, his, vs = mkvars(ctx)
                    arr = pnd.variable_ndarray(npshim.obj_matrix([[0] * n]), variables=vs)
                    keys = ids + FOREIGN
                    pres = [ctx.bool("p%d" % k) for k in range(len(keys))]
                    vals = [ctx.int("v%d" % k, -2 ** 20, 2 ** 20) for k in range(len(keys))]
                    sd = E.SymDict({keys[k]: (pres[k], vals[k]) for k in range(len(keys))})
                    dt = getattr(np, spec["dtype"])
                    dv = (lambda v: v.bounds.upper - 7) if spec["default"] == "callable" else None
                    d.update(los=los, his=his, pres=pres, vals=vals, sd=sd, res=arr.construct(sd, default_value=dv, dtype=dt))
                elif part == "indices":
                    los, his, vs = mkvars(ctx)
                    arr = pnd.variable_ndarray(npshim.obj_matrix([[0] * n]), variables=vs)
                    d.update(los=los, his=his, bi=arr.boolean_variable_indices, ii=arr.integer_variable_indices,
                             alt=[arr.variable_indices(puan.Dtype.BOOL), arr.variable_indices("bool"), arr.variable_indices(puan.Dtype.INT), arr.variable_indices("int")])
                elif part == "to_list":
                    vs = [puan.variable(i) for i in ids]
                    if spec["nd"] == 1:
                        e = [ctx.int("e%d" % j, -1, 2) for j in range(n)]      # "exactly the 1-entries": other values must not count
                        arr = pnd.boolean_ndarray(npshim.obj_vector(e), variables=vs)   # 1-D: default index
                    else:
                        e = [[ctx.int("e%d_%d" % (i, j), -1, 2) for j in range(n)] for i in range(2)]
                        arr = pnd.boolean_ndarray(npshim.obj_matrix(e), variables=vs)
                    d.update(e=e, res=arr.to_list())
                elif part == "from_list":
                    # candidate order of the given list: ids unknown to the context sit before, between and after known ones
                    cands = [ids[-1], "__unknown__"] + list(reversed(ids[:-1])) + ["__other__"]
                    cls = pnd.boolean_ndarray if spec["cls"] == "boolean" else pnd.integer_ndarray
                    if spec["nested"]:
                        fl = [[ctx.bool("f%d_%d" % (g, k)) for k in range(len(cands))] for g in range(2)]
                        lst = [SubList(cands, fl[g]) for g in range(2)]
                        first = SubList(cands, fl[0])
                        lst = NestedFirst([SubList(cands, fl[0]), SubList(cands, fl[1])])
                    else:
                        fl = [[ctx.bool("f0_%d" % k) for k in range(len(cands))]]
                        lst = SubList(cands, fl[0])
                    d.update(cands=cands, fl=fl, res=cls.from_list(lst, ids))
                else:
                    nr = spec["rows"]
                    los, his, vs = mkvars(ctx)
                    ent = [[ctx.int("m%d_%d" % (i, j), -100, 100) for j in range(n + 1)] for i in range(nr)]
                    if spec.get("edit"):
                        # the polyhedron is an ndarray: built with other content, queried, then overwritten in place; the answers must follow
                        ent0 = [[ctx.int("n%d_%d" % (i, j), -100, 100) for j in range(n + 1)] for i in range(nr)]
                        P = pnd.ge_polyhedron(npshim.obj_matrix(ent0), variables=[puan.variable(0, bounds=(1, 1))] + vs)
                        P.A, P.b, P.to_linalg(), P.A_max, P.A_min
                        for i in range(nr):
                            for j in range(n + 1):
                                P[i, j] = ent[i][j]
                    else:
                        P = pnd.ge_polyhedron(npshim.obj_matrix(ent), variables=[puan.variable(0, bounds=(1, 1))] + vs)
                    A, b = P.to_linalg()
                    d.update(ent=ent, A=P.A, b=P.b, A2=A, b2=b)
            except Exception as e:   # noqa
                err = "%s: %s" % (type(e).__name__, e)
            d["err"] = err
            d["syms"] = dict(ctx.syms)
            return d

        def on_path(ctx, d):
            run.path(ctx)

            def conc(m):
                return {k: (bool(S.model_int(m, v.e)) if isinstance(v, S.SymBool) else S.model_int(m, v)) for k, v in d["syms"].items()}
            if d["err"] is not None:
                run.obligation(ctx, "raises", True, conc, extra=d["err"])
                return
            if any(not isinstance(i, str) for i in ids):
                run.region("non-string-id")
            if part == "construct":
                isint = spec["dtype"].startswith("int")
                run.region("construct-int-dtype" if isint else "construct-float-dtype")
                if spec["default"] == "callable":
                    run.region("construct-callable-default")
                res = list(d["res"])
                dec = d["sd"].decided
                viol = []
                if len(res) != n:
                    viol.append(z3.BoolVal(True))
                for j in range(min(n, len(res))):
                    p, v = d["pres"][j].e, d["vals"][j].e
                    jj = (j + 1) % n if mu == "shifted_column" else j
                    p, v = d["pres"][jj].e, d["vals"][jj].e
                    got = res[j]
                    if spec["default"] == "callable":
                        dflt = d["his"][j].e - 7
                    elif isint:
                        dflt = d["los"][j].e if mu != "default_upper" else d["his"][j].e
                    else:
                        dflt = None
                    if dec.get(ids[j]) is False:
                        run.region("id-absent-default-used")
                    if isinstance(got, float) and got != got:
                        # NaN: legal only as the float-dtype default of an absent id
                        viol.append(p if dflt is None else z3.BoolVal(True))
                    else:
                        g = S.term(got)
                        viol.append(z3.If(p, g != v, (g != dflt) if dflt is not None else z3.BoolVal(True)))
                run.obligation(ctx, "construct", z3.Or(viol), conc)
                run.validate(ctx, conc, lambda m: {"res": [None if (isinstance(g, float) and g != g) else S.model_int(m, g) for g in res]})
            elif part == "indices":
                run.region("indices")
                bi, ii = [int(x) for x in d["bi"]], [int(x) for x in d["ii"]]
                viol = []
                for j in range(n):
                    isb = z3.And(d["los"][j].e == 0, d["his"][j].e == 1)
                    viol.append(isb != z3.BoolVal(j in bi))
                    viol.append(isb == z3.BoolVal(j in ii))
                if sorted(bi) != bi or sorted(ii) != ii or len(set(bi)) != len(bi) or len(set(ii)) != len(ii):
                    viol.append(z3.BoolVal(True))
                # the same answers through variable_indices() with the enum member and with the documented string form
                alt = [[int(x) for x in a] for a in d["alt"]]
                if alt[0] != bi or alt[1] != bi or alt[2] != ii or alt[3] != ii:
                    viol.append(z3.BoolVal(True))
                run.obligation(ctx, "indices-partition", z3.Or(viol), conc)
                run.validate(ctx, conc, lambda m: {"bi": bi, "ii": ii})
            elif part == "to_list":
                run.region("to_list-%dd" % spec["nd"])
                viol = []
                rows = [d["e"]] if spec["nd"] == 1 else d["e"]
                res = [d["res"]] if spec["nd"] == 1 else d["res"]
                if len(res) != len(rows):
                    viol.append(z3.BoolVal(True))
                for row, got in zip(rows, res):
                    gids = [v.id for v in got]
                    for j in range(n):
                        viol.append((row[j].e == 1) != z3.BoolVal(ids[j] in gids))
                    if len(gids) != len(set((type(g).__name__, g) for g in gids)) or any(g not in ids for g in gids):
                        viol.append(z3.BoolVal(True))
                run.obligation(ctx, "to_list", z3.Or(viol), conc)
                run.validate(ctx, conc, lambda m: {"res": [[str(v.id) for v in got] for got in res]})
            elif part == "from_list":
                run.region("from_list-" + ("bool" if spec["cls"] == "boolean" else "int"))
                if spec["nested"]:
                    run.region("from_list-nested")
                res = np.asarray(d["res"])
                cands, fl = d["cands"], d["fl"]
                viol = []
                groups = len(fl)
                want_shape = (groups, n) if spec["nested"] else (n,)
                anyp = [z3.Or([f.e for f in fl[g]]) for g in range(groups)]
                if tuple(res.shape) != want_shape:
                    # an empty (sub)list legitimately yields an empty array
                    run.obligation(ctx, "from_list-shape", z3.And(anyp), conc, extra="shape %s" % (res.shape,))
                else:
                    for g in range(groups):
                        row = res[g] if spec["nested"] else res
                        for j in range(n):
                            k = cands.index(ids[j])
                            present = fl[g][k].e
                            pos = 1 + sum((z3.If(fl[g][kk].e, 1, 0) for kk in range(k)), z3.IntVal(0))
                            exp = z3.If(present, pos if spec["cls"] == "integer" else z3.IntVal(1), z3.IntVal(0))
                            viol.append(S.term(row[j]) != exp)
                    run.obligation(ctx, "from_list", z3.Or(viol), conc)
                run.validate(ctx, conc, lambda m: {"res": [[S.model_int(m, v) for v in (r if spec["nested"] else [r])] for r in res.tolist()] if res.size else []})
            else:
                run.region("linalg")
                if spec.get("edit"):
                    run.region("linalg-after-in-place-edit")
                ent, A, b, A2, b2 = d["ent"], d["A"], d["b"], d["A2"], d["b2"]
                nr = len(ent)
                viol = []
                if A.shape != (nr, n) or b.shape != (nr,) or A2.shape != (nr, n) or b2.shape != (nr,):
                    viol.append(z3.BoolVal(True))
                else:
                    for i in range(nr):
                        viol.append(S.term(b[i]) != ent[i][0].e)
                        viol.append(S.term(b2[i]) != ent[i][0].e)
                        for j in range(n):
                            viol.append(S.term(A[i, j]) != ent[i][j + 1].e)
                            viol.append(S.term(A2[i, j]) != ent[i][j + 1].e)
                    if [v.id for v in A.variables] != ids or [v.id for v in A2.variables] != ids:
                        viol.append(z3.BoolVal(True))
                run.obligation(ctx, "A-b-split", z3.Or(viol), conc)
            run.sample({"part": part, "ids": [str(i) for i in ids], "path_condition": [str(z3.simplify(x)) for x in ctx.pc][:5]})

        st = S.explore(fn, on_path, max_paths=20000, wall=900)
        return run.result(st)
    finally:
        npshim.uninstall(pnd)


class NestedFirst(list):
    """outer list of SubLists; isinstance(lst[0], list) is true and len(lst) is concrete"""
    pass
