"""C04 — connectives have their documented truth functions (constructors, JSON, rule dictionaries)."""
import copy
import itertools
import random
import z3

from sx import wd, core as S, env as E, pl, plh, families as F, known

PROPERTY = "C04"
REGIONS = ["ctor", "json", "cicje", "All", "Any", "AtLeast", "AtMost", "Xor", "ExactlyOne", "XNor", "Imply", "Not", "str-leaves", "named-compound-plain-and-negated"]
BOUNDS = ("formulas with <=7 connective nodes over <=4 boolean leaves, depth<=3 (curated + seeded; thorough adds all 2-level "
          "formulas over 3 leaves); every 0/1 assignment (symbolic); AtLeast/AtMost k symbolic (|k|<=2^20) on explicitly named nodes; "
          "rule dictionaries: every ruleType x relation x {0,1,2} sub-conditions")
OUTSIDE = "larger formulas; integer leaves (C03 covers the arithmetic); the open known-finding class negate-mixed"
FAMILY = "PL skeletons over boolean leaves built three ways: constructors, plog.from_json dictionaries, Imply.from_cicJE dictionaries"
ASSUMPTIONS = ["M4", "M5 structural", "M6", "textbook semantics written in the harness (And/Or/cardinality/implication/negation)"]
CONNECTIVES = ["AtLeast", "AtMost", "All", "Any", "Xor", "XNor", "Imply", "Not"]
RULETYPES = ["REQUIRES_ALL", "REQUIRES_ANY", "ONE_OR_NONE", "FORBIDS_ALL", "REQUIRES_EXCLUSIVELY"]


def functions(ns):
    pg = ns.pg
    return [pg.All.__init__, pg.Any.__init__, pg.AtMost.__init__, pg.Xor.__init__, pg.XNor.__init__, pg.Imply.__init__, pg.Not.__new__,
            pg.AtLeast.negate, pg.from_json, pg.Imply.from_cicJE, pg.AtLeast.from_json, pg.AtMost.from_json, pg.All.from_json,
            pg.Any.from_json, pg.Xor.from_json, pg.XNor.from_json, pg.Imply.from_json, pg.Not.from_json, pg.AtLeast.evaluate]


def _strip_sign(spec):
    s = copy.deepcopy(spec)
    for c in pl.compounds(s):
        if c["t"] == "AtLeast":
            c["sign"] = None
    return s


def _two_level(leaves=("a", "b", "c")):
    out = []
    inner_t = ["All", "Any", "Xor", "XNor"]
    for to in ["All", "Any", "Xor", "XNor", "Imply"]:
        for ti in inner_t:
            inner = F.N(ti, F.V(leaves[0]), F.V(leaves[1]))
            out.append(F.N(to, inner, F.V(leaves[2]), id="A") if to != "Imply" else F.N("Imply", inner, F.V(leaves[2]), id="A"))
            if to == "Imply":
                out.append(F.N("Imply", F.V(leaves[2]), inner, id="A"))
            out.append(F.N("Not", F.N(to, inner, F.V(leaves[2]))) if to != "Imply" else F.N("Not", F.N("Imply", inner, F.V(leaves[2]))))
    return out


def _cic_rules(rng, tier):
    rules = []
    comps = ["a", "b", "c", "d"]
    for rt in RULETYPES:
        for nsub in (0, 1, 2):
            for rel_o in ("ALL", "ANY"):
                for rel_i in ("ALL", "ANY"):
                    if nsub == 0 and (rel_o, rel_i) != ("ALL", "ALL"):
                        continue
                    subs = []
                    pool = ["x", "y", "z", "w"]
                    for k in range(nsub):
                        cs = pool[2 * k: 2 * k + 2] if rng.random() < 0.7 else pool[2 * k: 2 * k + 1]
                        sc = {"relation": rel_i if k == 0 else rng.choice(["ALL", "ANY"]), "components": [{"id": c} for c in cs]}
                        if rng.random() < 0.4:
                            sc["id"] = "S%d" % k
                        subs.append(sc)
                    ncons = rng.choice([1, 2, 3])
                    rule = {"consequence": {"ruleType": rt, "components": [{"id": c} for c in comps[:ncons]]}}
                    if rng.random() < 0.5:
                        rule["id"] = "R"
                    if rng.random() < 0.3:
                        rule["consequence"]["id"] = "Q"
                    if nsub or rng.random() < 0.5:
                        rule["condition"] = {"relation": rel_o, "subConditions": subs}
                        if rng.random() < 0.3:
                            rule["condition"]["id"] = "K"
                    rules.append(rule)
    if tier == "quick":
        rng.shuffle(rules)
        rules = rules[:30]
    return rules


def instantiations(tier, seed):
    rng = random.Random(seed * 31 + 5)
    out = []
    skels = [s for s in F.curated() if all((lo, hi) == (0, 1) for lo, hi in pl.leaves(s).values())]
    n = 40 if tier == "quick" else 1000
    for _ in range(n):
        skels.append(F.random_skeleton(rng, max_nodes=rng.choice([3, 4, 5, 7]), int_leaves=False, connectives=CONNECTIVES))
    skels.append(F.N("ExactlyOne", F.a(), F.b(), F.c(), id="A"))
    skels.append(F.N("All", F.N("ExactlyOne", F.a(), F.b()), F.N("Any", F.c(), F.d(), id="B"), id="A"))
    if tier == "thorough":
        skels += _two_level()
    else:
        skels += rng.sample(_two_level(), 10)
    # one of each connective (symbolic k on the named cardinality nodes, nested once) through EVERY construction route
    basics = [F.AL(2, F.a(), F.b(), F.c(), id="A", sign=None), F.AM(1, F.a(), F.b(), F.c(), id="A"), F.N("All", F.a(), F.b(), id="A"),
              F.N("Any", F.a(), F.b(), id="A"), F.N("Xor", F.a(), F.b(), F.c(), id="A"), F.N("ExactlyOne", F.a(), F.b(), id="A"),
              F.N("XNor", F.a(), F.b(), F.c(), id="A"), F.N("Imply", F.a(), F.b(), id="A"), F.N("Not", F.N("Any", F.a(), F.b(), id="B")),
              F.N("All", F.AM(0, F.a(), F.b(), id="B"), F.N("Not", F.AM(1, F.c(), F.d(), id="C")), id="A"),
              F.N("Imply", F.AM(2, F.a(), F.b(), F.c(), id="B"), F.AL(1, F.c(), F.d(), id="C", sign=None), id="A"),
              F.N("Any", F.N("Not", F.AL(2, F.a(), F.b(), id="B", sign=None)), F.AM(0, F.c(), id="C"), id="A")]
    basics += [F.N("Not", F.AL(3, F.N("Any", F.a(), F.b()), F.N("Any", F.c(), F.d()), id="B", sign=None)),
               F.N("Imply", F.AL(2, F.N("All", F.a(), F.b()), F.N("Any", F.c(), F.d()), id="B", sign=None), F.a(), id="A"),
               F.N("Not", F.N("XNor", F.N("All", F.a(), F.b()))), F.N("Imply", F.N("XNor", F.N("Any", F.a(), F.b())), F.c()),
               F.N("Not", F.N("Not", F.AL(1, F.N("Any", F.a(), F.b()), id="B", sign=None)))]
    nA = lambda: F.N("All", F.a(), F.b(), id="B")     # noqa
    nB = lambda: F.N("Any", F.c(), F.d(), id="C")     # noqa
    basics += [F.N("XNor", nA(), nB(), id="A"), F.N("Any", nA(), F.N("Not", nA()), id="A"), F.N("Imply", nA(), nA(), id="A"),
               F.N("All", F.N("Imply", nA(), F.c()), F.N("Imply", F.d(), nA()), id="A"), F.N("Xor", nA(), F.N("Not", nB()), nB(), id="A"),
               F.N("All", F.N("XNor", nA(), F.c()), F.N("Any", nA(), F.d()), id="A")]
    # different compound arguments whose generated ids coincide (the id digests the concatenated child ids: "1"+"12" == "11"+"2")
    V_ = F.V
    basics += [F.N("All", F.N("Any", V_("1"), V_("12")), F.N("Any", V_("11"), V_("2")), id="A"),
               F.N("Xor", F.N("Any", V_("12"), V_("34")), F.N("Any", V_("1234")), V_("5"), id="A"),
               F.N("Imply", F.N("All", F.N("Any", V_("1"), V_("12")), F.N("Any", V_("11"), V_("2"))), V_("q"), id="A"),
               F.AL(2, F.N("All", V_("ab"), V_("c")), F.N("All", V_("a"), V_("bc")), V_("d"), id="A", sign=None)]
    routed = [(sk, how) for sk in basics for how in ("ctor", "json", "ctor-str")]
    routed += [(sk, ["ctor", "json", "ctor-str"][k % 3]) for k, sk in enumerate(skels)]
    for k, (sk, how) in enumerate(routed):
        names = F.ALT_NAMES[(k + seed) % len(F.ALT_NAMES)]
        m = F.rename(F.symbolize(sk), names)
        if how == "json" and k % 2 == 0:
            m = _strip_sign(m)        # the other half keeps the explicit "sign" key in the JSON (any value/sign combination)
        if how == "ctor-str":
            for c in pl.compounds(m):
                for ch in c["ch"]:
                    if ch["t"] == "var":
                        ch["str"] = True
        out.append({"model": m, "how": how})
    for k, rule in enumerate(_cic_rules(rng, tier)):
        out.append({"how": "cicje", "rule": rule})
    for mu in ("all_as_any", "xor_as_any", "imply_flipped"):
        out.append({"kind": "mutant", "mutant": mu, "how": "ctor",
                    "model": F.N("All", F.N("Xor", F.a(), F.b(), id="B"), F.N("Imply", F.c(), F.d(), id="C"), id="A")})
    return out


# ---- rule dictionary: builder input and textbook oracle -------------------------------------

def _rel(rel, xs):
    return z3.And(xs) if rel == "ALL" else z3.Or(xs)


def cic_sem(rule, vals):
    cons = rule["consequence"]
    cs = [vals[c["id"]] for c in cons["components"]]
    tot = pl._sum(cs)
    rt = cons["ruleType"]
    cq = {"REQUIRES_ALL": z3.And([c >= 1 for c in cs]), "REQUIRES_ANY": z3.Or([c >= 1 for c in cs]), "ONE_OR_NONE": tot <= 1,
          "FORBIDS_ALL": tot == 0, "REQUIRES_EXCLUSIVELY": tot == 1}[rt]
    cond = rule.get("condition")
    if not cond or not cond.get("subConditions"):
        return pl._I(cq)
    subs = [_rel(sc.get("relation", "ALL"), [vals[c["id"]] >= 1 for c in sc["components"]]) for sc in cond["subConditions"]]
    cd = subs[0] if len(subs) == 1 else _rel(cond.get("relation", "ALL"), subs)
    return pl._I(z3.Implies(cd, cq))


def cic_leaves(rule):
    ids = [c["id"] for c in rule["consequence"]["components"]]
    for sc in rule.get("condition", {}).get("subConditions", []):
        ids += [c["id"] for c in sc["components"]]
    return sorted(set(ids))


def _mut_spec(spec, mu):
    s = copy.deepcopy(spec)
    for c in pl.compounds(s):
        if mu == "all_as_any" and c["t"] == "All":
            c["t"] = "Any"
        if mu == "xor_as_any" and c["t"] == "Xor":
            c["t"] = "Any"
        if mu == "imply_flipped" and c["t"] == "Imply":
            c["ch"] = c["ch"][::-1]
    return s


def run_inst(spec, run):
    ns = E.load_repo()
    how = spec["how"]
    mu = spec.get("mutant")
    if how == "cicje":
        return _run_cic(ns, spec, run)
    model_spec = spec["model"]
    rep = pl.build(ns, model_spec, plh.mid_env(model_spec))
    reused = False
    if rep.errors() != []:
        # C04 is about evaluation and is not restricted to validated models.  A model whose SPEC gives every id one definition can still fail
        # errors(): negation keeps an explicit id, so XNor / Not / Imply over a named compound hold that compound and its negation under one id.
        # Such models are kept; models whose spec itself is ambiguous (one id, two definitions / leaf and compound / cycles) are skipped.
        env0 = plh.mid_env(model_spec)
        if not wd.welldefined(model_spec, lambda x: pl.P(env0, x), lambda a, b: a == b, all, True, False):
            return run.skipped("the instantiation itself gives one id two definitions")
        reused = True
    oracle_spec = _mut_spec(model_spec, mu) if mu else model_spec

    def fn(ctx):
        env = plh.sym_env(ctx, model_spec, validated=False)       # C04 is not restricted to validated models
        vals = plh.leaf_syms(ctx, model_spec, env)
        zvals = {k: v.e for k, v in vals.items()}
        ref = pl.sem(oracle_spec, env, zvals)
        kn = z3.BoolVal(False)
        for site in known.spec_negation_sites(model_spec):
            if site["t"] != "var":
                kn = z3.Or(kn, known.negate_mixed(ns, pl.build(ns, site, env)))
        err = val = None
        try:
            if how == "json":
                m = ns.pg.from_json(pl.to_json_spec(model_spec, env))
            else:
                m = pl.build(ns, model_spec, env)
            val = m.evaluate(dict(vals))
        except Exception as e:    # noqa
            err = "%s: %s" % (type(e).__name__, e)
        return dict(env=env, vals=vals, ref=ref, kn=z3.simplify(kn), val=val, err=err)

    def on_path(ctx, res):
        run.path(ctx)
        env, vals = res["env"], res["vals"]

        def conc(m):
            return {"env": plh.conc_env(m, env), "vals": plh.conc_vals(m, vals)}
        kn = {"negate-mixed": res["kn"]}
        run.region("ctor" if how.startswith("ctor") else how)
        if reused:
            run.region("named-compound-plain-and-negated")
        if how == "ctor-str":
            run.region("str-leaves")
        for c in pl.compounds(model_spec):
            run.region(c["t"])
        if res["err"] is not None:
            run.obligation(ctx, "raises", True, conc, known=kn, extra=res["err"])
            return
        val = res["val"]
        run.obligation(ctx, "truth-table", z3.Or(S.term(val.lower) != res["ref"], S.term(val.upper) != res["ref"]), conc, known=kn)
        run.validate(ctx, conc, lambda m: {"val": [S.model_int(m, val.lower), S.model_int(m, val.upper)]}, known=kn)
        run.sample({"model": pl.show(model_spec), "how": how, "path_condition": [str(z3.simplify(c)) for c in ctx.pc][:6]})

    st = S.explore(fn, on_path, max_paths=30000, wall=2400)
    return run.result(st)


def _run_cic(ns, spec, run):
    rule = spec["rule"]
    leaves = cic_leaves(rule)

    def fn(ctx):
        vals = {l: ctx.int("x_" + l, 0, 1) for l in leaves}
        zvals = {k: v.e for k, v in vals.items()}
        ref = cic_sem(rule, zvals)
        err = val = None
        try:
            m = ns.pg.Imply.from_cicJE(copy.deepcopy(rule))
            if m.errors() != []:
                return dict(skip=True)
            val = m.evaluate(dict(vals))
        except Exception as e:   # noqa
            err = "%s: %s" % (type(e).__name__, e)
        return dict(vals=vals, ref=ref, val=val, err=err)

    def on_path(ctx, res):
        if res.get("skip"):
            return
        run.path(ctx)
        vals = res["vals"]

        def conc(m):
            return {"vals": plh.conc_vals(m, vals)}
        run.region("cicje")
        if res["err"] is not None:
            run.obligation(ctx, "raises", True, conc, extra=res["err"])
            return
        val = res["val"]
        run.obligation(ctx, "truth-table", z3.Or(S.term(val.lower) != res["ref"], S.term(val.upper) != res["ref"]), conc)
        run.validate(ctx, conc, lambda m: {"val": [S.model_int(m, val.lower), S.model_int(m, val.upper)]})
        run.sample({"rule": rule, "path_condition": [str(z3.simplify(c)) for c in ctx.pc][:6]})

    st = S.explore(fn, on_path, max_paths=6000, wall=600)
    return run.result(st)
