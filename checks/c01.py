"""C01 — logic-to-polyhedron encoding agrees with evaluation on every assignment."""
import random
import z3

from sx import core as S, env as E, pl, plh, families as F, poly

PROPERTY = "C01"
REGIONS = ["active", "non-active", "integer-leaf", "16-bit-leaf", "negative-parent-over-compound", "shared-subproposition", "top-true-reachable", "top-false-reachable", "after-sibling-models"]
BOUNDS = ("PL family skeletons (<=7 compounds, depth<=3) with CONCRETE thresholds/signs/boxes (the model must cross the Rust encoder, M7): "
          "thresholds from {min-1..max+1 of the node's range}, integer boxes from {(0,1),(-2,3),(-5,10),(2,2),(0,4),(-3,-1),(-32768,32767)}; "
          "the leaf assignment is fully symbolic inside the boxes (including the 65536-value ranges)")
OUTSIDE = "larger skeletons; thresholds/boxes other than the instantiated ones; reduced=True; int64 overflow"
FAMILY = "curated + seeded PL skeletons x seeded re-parameterisations x active in {True, False}; plus the same model encoded after sibling models (same ids, nested thresholds moved by one) in the same interpreter"
ASSUMPTIONS = ["M7: TheoryPy.to_ge_polyhedron is called for real (not modelled)", "M4", "M5 structural",
               "reference truth values are the per-node bounds returned by the real evaluate_propositions run symbolically (C03 checks those)"]


def functions(ns):
    A = ns.pg.AtLeast
    return [A.to_ge_polyhedron, A.flatten, A.evaluate_propositions, A.assume, ns.pnd.ge_polyhedron.__new__, ns.pnd.variable_ndarray.__new__]


def instantiations(tier, seed):
    rng = random.Random(seed * 401 + 13)
    out = []
    skels = F.pl_family(tier, seed, n_quick=90, n_thorough=1200)
    reps = 2 if tier == "quick" else 5
    for k, sk in enumerate(skels):
        names = F.ALT_NAMES[(k + seed) % len(F.ALT_NAMES)]
        for r in range(reps):
            m = F.rename(sk if r == 0 else poly.reparam(sk, rng), names)
            for active in (True, False):
                out.append({"model": m, "active": active})
            # the same model encoded after sibling models over the same ids were encoded in the same interpreter
            sib = poly.siblings(m)
            if sib and (r == 0 or tier != "quick"):
                out.append({"model": m, "active": True, "before": sib})
    base = F.AL(2, F.a(), F.i(), F.AL(1, F.b(), F.c(), id="B", sign=1), id="A", sign=1)
    for mu in ("shift_b", "drop_iff"):
        out.append({"kind": "mutant", "mutant": mu, "model": base, "active": True})
    return out


def run_inst(spec, run):
    ns = E.load_repo()
    model_spec = spec["model"]
    mu = spec.get("mutant")
    active = spec["active"]
    try:
        m = pl.build(ns, model_spec, {})
    except Exception as e:   # noqa
        return run.skipped("constructor rejects the instantiation: %s" % type(e).__name__)
    if m.errors() != []:
        return run.skipped("model fails the repository's own validation (errors() != [])")
    if poly.prefixed(ns, m):
        return run.skipped("a sub-proposition is pre-fixed to a constant (excluded by the property)")
    leaves = pl.leaves(model_spec)
    for sb in spec.get("before", []):
        try:
            sm = pl.build(ns, sb, {})
            sm.to_ge_polyhedron(active=True)
            sm.to_ge_polyhedron(active=False)
        except Exception:   # noqa
            pass
    if spec.get("before"):
        run.region("after-sibling-models")
    try:
        M = m.to_ge_polyhedron(active=active)
    except Exception as e:   # noqa
        # a crash on a validated model: report through the normal channel (replay confirms)
        M = None
        crash = "%s: %s" % (type(e).__name__, e)
    nodes = plh.walk(ns, pl.build(ns, model_spec, {}))
    topid = m.id

    def fn(ctx):
        x = plh.leaf_syms(ctx, model_spec, {})
        m1 = pl.build(ns, model_spec, {})
        err = r = None
        try:
            r = m1.evaluate_propositions(dict(x))
        except Exception as e:   # noqa
            err = "%s: %s" % (type(e).__name__, e)
        return dict(x=x, r=r, err=err)

    def on_path(ctx, res):
        run.path(ctx)
        x = res["x"]

        def conc(mm):
            return {"x": plh.conc_vals(mm, x)}
        if M is None:
            run.obligation(ctx, "to_ge_polyhedron-raises", True, conc, extra=crash)
            return
        if res["err"] is not None:
            run.obligation(ctx, "evaluate-raises", True, conc, extra=res["err"])
            return
        run.region("active" if active else "non-active")
        if any(b != (0, 1) for b in leaves.values()):
            run.region("integer-leaf")
        if any(b == (-32768, 32767) for b in leaves.values()):
            run.region("16-bit-leaf")
        if not pl.solver_safe(ns, m):
            run.region("negative-parent-over-compound")
        if any(len(o) > 1 for k, o in nodes.items() if k not in leaves):
            run.region("shared-subproposition")
        r = res["r"]
        colterm, bad = {}, []
        for nid, b in r.items():
            colterm[nid] = S.term(b.lower)
            if nid not in leaves:
                bad.append(S.term(b.lower) != S.term(b.upper))
        cols = [v.id for v in list(M.variables)[1:]]
        want_cols = set(nodes) - ({topid} if active else set())
        struct = []
        if set(cols) != want_cols or len(cols) != len(set(cols)):
            struct.append("column ids %s != model ids %s" % (sorted(map(str, cols)), sorted(map(str, want_cols))))
        for v in list(M.variables)[1:]:
            o = nodes.get(v.id)
            if o is not None and (int(v.bounds.lower), int(v.bounds.upper)) != (S.concrete(o[0].bounds.lower), S.concrete(o[0].bounds.upper)):
                struct.append("column %s bounds %s != model bounds" % (v.id, v.bounds))
        if struct:
            run.obligation(ctx, "columns", True, conc, extra="; ".join(struct))
            return
        rws = poly.rows(M, colterm)
        if mu == "shift_b":
            rws = [z3.substitute(rw, ) for rw in rws]
            rws = poly.rows(_shift(M), colterm)
        allrows = z3.And(rws) if rws else z3.BoolVal(True)
        top = S.term(r[topid].lower)
        if active:
            viol = z3.Or(z3.Or(bad) if bad else z3.BoolVal(False), allrows != (top == 1))
            if mu == "drop_iff":
                viol = z3.Not(allrows)
            for nm, cond in (("top-true-reachable", top == 1), ("top-false-reachable", top == 0)):
                if nm not in run.regions and ctx.query(cond)[0] == "sat":
                    run.region(nm)
        else:
            viol = z3.Or(z3.Or(bad) if bad else z3.BoolVal(False), z3.Not(allrows))
        run.obligation(ctx, "rows-iff-top" if active else "extended-assignment-feasible", viol, conc)
        ext = z3.Or([z3.Or(x[l].e == lo, x[l].e == hi) for l, (lo, hi) in leaves.items() if (lo, hi) != (0, 1)] or [z3.BoolVal(False)])
        run.validate(ctx, conc, lambda mm: {"props": {str(k): S.model_int(mm, b.lower) for k, b in r.items()}}, extremes=ext)
        run.sample({"model": pl.show(model_spec), "active": active, "matrix": M.tolist(), "columns": [str(c) for c in cols],
                    "path_condition": [str(z3.simplify(c)) for c in ctx.pc][:4]})

    st = S.explore(fn, on_path, max_paths=6000, wall=900)
    return run.result(st)


def _shift(M):
    M2 = M.copy()
    M2[:, 0] = M2[:, 0] + 1
    return M2
