"""C14 — configurator objectives realise choices over defaults over stinginess."""
import itertools
import random
import numpy as np
import z3

from sx import core as S, env as E, npshim, ffi, cfg, pl, plh


def _clear_caches(ns_):
    """empty the configurator-level caches if the current tree has any (lru_cache on the class, pinned tree); a no-op for per-instance caches"""
    for name in ("ge_polyhedron", "leafs"):
        f = ns_.cc.StingyConfigurator.__dict__.get(name)
        f = getattr(f, "fget", f)
        cc_ = getattr(f, "cache_clear", None)
        if cc_ is not None:
            cc_()

PROPERTY = "C14"
REGIONS = ["second-dictionary-of-one-call", "subclass-items", "through-select", "second-select-on-the-same-object", "empty-priority-dictionary", "defaulted-xor", "defaulted-any", "no-default", "user-positive", "user-negative", "user-tie", "two-levels", "user-zero", "user-on-compound",
           "prio-minus-2-column", "key-strictly-ordered-pair-exists"]
BOUNDS = ("CFG family: configurators with defaulted/plain cc.Any and cc.Xor, AtMost, All, Any, Xor, Imply rules, nesting <=2, <=6 boolean items, "
          "<=16 columns (concrete: the model crosses the Rust encoder, M7); priority dictionary over <=3 seeded ids with symbolic values |p|<=20 "
          "(zero, ties, negatives included; the path fixes their weak order); two symbolic 0/1 configurations over ALL columns (auxiliaries included), "
          "both constrained to satisfy the polyhedron")
OUTSIDE = "larger configurators; more than 3 prioritised ids; several priority dictionaries at once; non-boolean items"
FAMILY = "curated + seeded configurators x seeded prioritised-id subsets"
ASSUMPTIONS = ["M1", "M7 real encoder on concrete configurators", "M8 bit-allocation contract", "lexicographic key written in the harness from the configurator SPEC "
               "(user levels by magnitude; non-default branch columns; all other columns)", "lru_cache of StingyConfigurator.ge_polyhedron cleared before each instantiation (C09 covers the cache)"]


def functions(ns):
    return [ns.cc.Any.__init__, ns.cc.Xor.__init__, ns.cc.StingyConfigurator.default_prios, ns.cc.StingyConfigurator.ge_polyhedron.fget,
            ns.pnd.ge_polyhedron_config._vectors_from_prios, ns.pnd.integer_ndarray.ndint_compress, ns.pnd.variable_ndarray.construct]


def instantiations(tier, seed):
    rng = random.Random(seed * 1201 + 3)
    out = []
    for k, c in enumerate(cfg.cfg_family(tier, seed)):
        its = cfg.items(c)
        cids = pl.explicit_ids(c)
        reps = 1 if tier == "quick" else 2
        for r in range(reps):
            keys = rng.sample(its, min(len(its), rng.choice([1, 2, 3])))
            if (k + r) % 4 == 3 and cids:
                keys[-1] = rng.choice([i for i in cids if i != c["id"]] or cids)
            out.append({"model": c, "prio_keys": keys})
        out.append({"model": c, "prio_keys": []})       # the empty priority dictionary: defaults and stinginess alone decide
        if k % 3 == 0 or tier == "thorough":
            # items that are instances of a user-defined subclass of puan.variable (parts carrying their own attributes)
            from sx.families import with_subclass_leaves
            cs = with_subclass_leaves(c)
            out.append({"model": cs, "prio_keys": []})
            if its:
                out.append({"model": cs, "prio_keys": its[:1], "via": "select"})
        if its:
            # the objective as the solver receives it from select(); and the same after an earlier select() on the same object
            keys2 = rng.sample(its, min(len(its), 2))
            out.append({"model": c, "prio_keys": keys2, "via": "select"})
            if k % 2 == 1 or tier == "thorough":
                out.append({"model": c, "prio_keys": keys2, "via": "cfgselect-multi"})
            if k % 2 == 0 or tier == "thorough":
                out.append({"model": c, "prio_keys": keys2, "via": "select", "repeat": True})
    from sx.families import V, AM
    base = cfg.SC(cfg.cAny(V("a"), V("b"), id="A", default=["a"]), AM(3, V("d"), V("e"), V("f"), id="M"))
    for mu in ("ignore_defaults", "user_below_defaults"):
        out.append({"kind": "mutant", "mutant": mu, "model": base, "prio_keys": ["d", "b"]})
    return out


def lex_gt(kx, ky):
    """z3: tuple kx > ky lexicographically"""
    res = z3.BoolVal(False)
    for i in reversed(range(len(kx))):
        res = z3.Or(kx[i] > ky[i], z3.And(kx[i] == ky[i], res))
    return res


def run_inst(spec, run):
    ns = E.load_repo()
    mu = spec.get("mutant")
    model_spec = spec["model"]
    _clear_caches(ns)
    try:
        c0 = pl.build(ns, model_spec, {})
    except Exception as e:    # noqa
        return run.skipped("constructor rejects the instantiation: %s" % type(e).__name__)
    if c0.errors() != []:
        return run.skipped("model fails the repository's own validation (errors() != [])")
    P0 = c0.ge_polyhedron          # real FFI, concrete
    cols = [v.id for v in P0.A.variables]
    if len(cols) > 16:
        return run.skipped("more than 16 columns")
    M = np.asarray(P0).astype(int)
    # non-default-branch columns, identified structurally from the spec (children ids == complement), not from the `prio` tag
    nodes = plh.walk(ns, c0)
    d2 = set()
    for nd_spec, d, comp in cfg.defaulted(model_spec):
        for nid, objs in nodes.items():
            o = objs[0]
            if not issubclass(o.__class__, ns.puan.variable) and getattr(o, "generated_id", False) and S.concrete(o.value) == 1 and S.concrete(o.sign) == 1 \
                    and sorted(x.id for x in o.propositions) == sorted(comp):
                # the inner Any(complement) created by cc.Any; the same id may coincide with a user-written Any over the same leaves
                d2.add(nid)
    keys = spec["prio_keys"]
    npshim.install(ns.pnd)
    stub = ffi.install(ns.pnd)
    try:
        def fn(ctx):
            rep = bool(spec.get("repeat"))
            if rep:
                ctx.preregister([-2, -1, 0, 1, 2])
            prios = {k: ctx.int("p_%s" % k, *((-2, 2) if rep else (-20, 20))) for k in keys}
            prios0 = {k: ctx.int("q_%s" % k, -2, 2) for k in keys} if rep else None
            x = [ctx.int("x%d" % j, 0, 1) for j in range(len(cols))]
            y = [ctx.int("y%d" % j, 0, 1) for j in range(len(cols))]
            for vec in (x, y):
                for i in range(M.shape[0]):
                    ctx.assume(sum((int(M[i, j + 1]) * vec[j].e for j in range(len(cols)) if M[i, j + 1] != 0), z3.IntVal(0)) >= int(M[i, 0]))
            _clear_caches(ns)
            c1 = pl.build(ns, model_spec, {})
            err = w = None
            got = []

            def rec(Pm, objs):
                # the harness is the solver: it records the objectives it is handed and reports "no solution"
                got.append(np.asarray([list(o) for o in objs], dtype=object))
                return [(None, 0, 4) for _ in got[-1]]
            try:
                P = c1.ge_polyhedron
                if spec.get("via") == "cfgselect-multi":
                    # the configurator's own select() with SEVERAL priority dictionaries in one call: every dictionary gets its own objective
                    first = {cfg.items(model_spec)[0]: 1}
                    list(c1.select(dict(first), dict(prios), solver=rec, only_leafs=False))
                    w = got[-1][1:2]
                elif spec.get("via") == "select":
                    if rep:
                        # an earlier select() on the same object with another dictionary over the same ids; hash values in decided mode, so that
                        # -1 and -2 hash alike inside the code under test as they do in CPython
                        S.HASH_MODE = "decided"
                        list(P.select(dict(prios0), solver=rec))
                    list(P.select(dict(prios), solver=rec))
                    w = got[-1]
                else:
                    w = P._vectors_from_prios([dict(prios)])
            except Exception as e:   # noqa
                err = "%s: %s" % (type(e).__name__, e)
            finally:
                S.HASH_MODE = "structural"
            # the oracle needs the weak order of the user priorities fixed per path; normally the code under test has decided it already
            # (literal cache: no new forks then); if the code never looked at a priority, the harness decides it here
            for k_ in keys:
                bool(S.SymBool(prios[k_].e > 0))
                bool(S.SymBool(prios[k_].e < 0))
            for a_, b_ in itertools.combinations(keys, 2):
                za, zb = pl_abs(prios[a_].e), pl_abs(prios[b_].e)
                bool(S.SymBool(za < zb))
                bool(S.SymBool(za == zb))
            return dict(prios=prios, prios0=prios0, x=x, y=y, w=w, err=err)

        def on_path(ctx, d):
            run.path(ctx)
            prios, x, y = d["prios"], d["x"], d["y"]

            def conc(m):
                return {"prios": {k: S.model_int(m, v) for k, v in prios.items()}, "x": [S.model_int(m, v) for v in x], "y": [S.model_int(m, v) for v in y],
                        "prios0": None if d["prios0"] is None else {k: S.model_int(m, v) for k, v in d["prios0"].items()}}
            if d["err"] is not None:
                run.obligation(ctx, "raises", True, conc, extra=d["err"])
                return
            w = np.asarray(d["w"], dtype=object)
            if w.shape != (1, len(cols)):
                run.obligation(ctx, "objective-shape", True, conc, extra=str(w.shape))
                return
            wv = [S.concrete(w[0, j]) for j in range(len(cols))]
            if any(v is None for v in wv):
                raise S.HarnessError("objective not concrete on the path")
            # grouping of the user priorities on this path (decided by the path; verified below)
            ctx._ensure_model()
            pm = {k: S.model_int(ctx.model, v) for k, v in prios.items()}
            facts = []
            for k in keys:
                facts.append((prios[k].e > 0) if pm[k] > 0 else ((prios[k].e < 0) if pm[k] < 0 else (prios[k].e == 0)))
            for a_, b_ in itertools.combinations(keys, 2):
                za, zb = pl_abs(prios[a_].e), pl_abs(prios[b_].e)
                facts.append((za < zb) if abs(pm[a_]) < abs(pm[b_]) else ((za > zb) if abs(pm[a_]) > abs(pm[b_]) else (za == zb)))
            if ctx.query(z3.Not(z3.And(facts)))[0] != "unsat":
                raise S.HarnessError("the path does not fix the weak order of the user priorities")
            user = [k for k in keys if pm[k] != 0 and k in cols]
            mags = sorted(set(abs(pm[k]) for k in user), reverse=True)
            if any(pm[k] > 0 for k in user):
                run.region("user-positive")
            if any(pm[k] < 0 for k in user):
                run.region("user-negative")
            if len(mags) >= 2:
                run.region("two-levels")
            if len(mags) < len(user):
                run.region("user-tie")
            if any(pm[k] == 0 for k in keys):
                run.region("user-zero")
            if not keys:
                run.region("empty-priority-dictionary")
            if any(l.get("sub") for l in _leafspecs(model_spec)):
                run.region("subclass-items")
            if any(k in user and k not in cfg.items(model_spec) for k in keys):
                run.region("user-on-compound")
            dd = cfg.defaulted(model_spec)
            if any(s["t"] == "cXor" for s, _, _ in dd):
                run.region("defaulted-xor")
            if any(s["t"] == "cAny" for s, _, _ in dd):
                run.region("defaulted-any")
            if not dd:
                run.region("no-default")
            if d2 & set(cols):
                run.region("prio-minus-2-column")
            ci = {c: j for j, c in enumerate(cols)}

            def key(vec):
                ks = []
                for mg in mags:
                    ks.append(sum(((1 if pm[k] > 0 else -1) * vec[ci[k]].e for k in user if abs(pm[k]) == mg), z3.IntVal(0)))
                D2 = [c for c in cols if c in d2 and c not in user]
                D1 = [c for c in cols if c not in d2 and c not in user]
                if mu == "ignore_defaults":
                    ks.append(-sum((vec[ci[c]].e for c in D2 + D1), z3.IntVal(0)))
                elif mu == "user_below_defaults":
                    ks = [-sum((vec[ci[c]].e for c in D2), z3.IntVal(0))] + ks + [-sum((vec[ci[c]].e for c in D1), z3.IntVal(0))]
                else:
                    ks.append(-sum((vec[ci[c]].e for c in D2), z3.IntVal(0)))
                    ks.append(-sum((vec[ci[c]].e for c in D1), z3.IntVal(0)))
                return ks
            kx, ky = key(x), key(y)
            wx = sum((wv[j] * x[j].e for j in range(len(cols)) if wv[j] != 0), z3.IntVal(0))
            wy = sum((wv[j] * y[j].e for j in range(len(cols)) if wv[j] != 0), z3.IntVal(0))
            gt = lex_gt(kx, ky)
            if "key-strictly-ordered-pair-exists" not in run.regions and ctx.query(gt)[0] == "sat":
                run.region("key-strictly-ordered-pair-exists")
            run.obligation(ctx, "lexicographic-order-respected", z3.And(gt, wx <= wy), conc)
            run.obligation(ctx, "equal-keys-equal-objective", z3.And(z3.And([a == b for a, b in zip(kx, ky)]), wx != wy), conc)
            tops = [k for k in user if abs(pm[k]) == mags[0] and pm[k] > 0] if mags else []
            if len(tops) == 1 and sum(1 for k in user if abs(pm[k]) == mags[0]) == 1:
                j = ci[tops[0]]
                run.obligation(ctx, "top-priority-item-wins", z3.And(x[j].e == 1, y[j].e == 0, wy >= wx), conc)
            if spec.get("via") == "select":
                run.region("through-select")
            if spec.get("via") == "cfgselect-multi":
                run.region("second-dictionary-of-one-call")
            ext = None
            if d["prios0"] is not None:
                run.region("second-select-on-the-same-object")
                ext = z3.Or([z3.Or(z3.And(prios[k].e == -1, d["prios0"][k].e == -2), z3.And(prios[k].e == -2, d["prios0"][k].e == -1)) for k in keys])
            run.validate(ctx, lambda m: {"prios": {k: S.model_int(m, v) for k, v in prios.items()}, "x": [0] * len(cols), "y": [0] * len(cols),
                                         "prios0": None if d["prios0"] is None else {k: S.model_int(m, v) for k, v in d["prios0"].items()}},
                         lambda m: {"w": wv}, extremes=ext)
            run.sample({"model": pl.show(model_spec), "columns": [str(c)[:10] for c in cols], "prio_keys": keys, "objective": wv,
                        "path_condition": [str(z3.simplify(c)) for c in ctx.pc][:6]})

        st = S.explore(fn, on_path, max_paths=20000, wall=1500)
        return run.result(st)
    finally:
        ffi.uninstall(ns.pnd)
        npshim.uninstall(ns.pnd)


def _leafspecs(spec, acc=None):
    acc = [] if acc is None else acc
    if spec["t"] == "var":
        acc.append(spec)
    for c in spec.get("ch", []):
        _leafspecs(c, acc)
    return acc


def pl_abs(e):
    return z3.If(e >= 0, e, -e)
