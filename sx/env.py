"""Environment models M1-M10 (see DESIGN.md §2.3): everything that is modelled is
modelled here, from outside; no file in the repository is changed."""
import builtins
import hashlib
import inspect
import math
import os
import sys
import types

import z3

from . import core as S

REPO = os.environ.get("VERIF_REPO", "/repo")


class NS:
    pass


_ns = None


def load_repo():
    """import the repository's modules from REPO's *current working tree*"""
    global _ns
    if _ns is not None:
        return _ns
    if REPO not in sys.path[:1]:
        sys.path.insert(0, REPO)
    import puan
    import puan.logic.plog as pg
    import puan.ndarray as pnd
    import puan.modules.configurator as cc
    import puan.misc as misc
    import puan_rspy as pr
    if not os.path.realpath(puan.__file__).startswith(os.path.realpath(REPO) + os.sep):
        raise S.HarnessError("puan imported from %s, expected under %s" % (puan.__file__, REPO))
    n = NS()
    n.puan, n.pg, n.pnd, n.cc, n.misc, n.pr = puan, pg, pnd, cc, misc, pr
    _ns = n
    install_int_shadow()
    # M1 for the logic layer: plog only uses numpy as np.array(pairs).sum(axis=0) >= value, which keeps proxies on its own; the
    # forwarding shim only matters if the code asks for a numeric dtype (it then gets object storage instead of an int() conversion)
    from . import npshim
    pg.np = npshim.Shim()
    snapshot_process_state(n)
    S.PATH_RESET = reset_process_state
    return n


_STATE = []      # (container, import-time shallow copy) for every module-level / class-level dict, list, set of the repository's modules


def _containers(n):
    seen = set()
    for mod in (n.puan, n.pg, n.pnd, n.cc, n.misc):
        for name, obj in list(vars(mod).items()):
            if name.startswith("__"):
                continue
            if isinstance(obj, (dict, list, set)) and id(obj) not in seen:
                seen.add(id(obj))
                yield obj
            if isinstance(obj, type) and getattr(obj, "__module__", "").startswith("puan"):
                for an, attr in list(vars(obj).items()):
                    if an.startswith("__"):
                        continue
                    if isinstance(attr, (dict, list, set)) and id(attr) not in seen:
                        seen.add(id(attr))
                        yield attr


def snapshot_process_state(n):
    """M12: remember the import-time content of every process-wide mutable container of the repository's modules (module globals and
    class attributes of type dict/list/set; a change may introduce new ones, e.g. a memo table)"""
    del _STATE[:]
    for c in _containers(n):
        _STATE.append((c, type(c)(c)))


def reset_process_state():
    """called by core.explore before every path: SX re-executes the harness once per path and every path stands for one run that
    starts in a fresh process, so process-wide state written by an earlier path (memo tables, functools caches) must not leak into
    the next one - it could hold proxies of another path and make the re-execution diverge from its recorded prefix"""
    for c, c0 in _STATE:
        try:
            if isinstance(c, list):
                c[:] = c0
            else:
                c.clear()
                c.update(c0)
        except Exception:   # noqa
            pass
    clear_all_caches()


def src_hash(obj):
    try:
        src = inspect.getsource(obj)
    except (OSError, TypeError):
        return None
    return hashlib.sha256(src.encode()).hexdigest()[:16]


def functions_encoded(objs):
    out = []
    for o in objs:
        f = o.fget if isinstance(o, property) else o
        f = getattr(f, "__wrapped__", f)
        out.append({"function": getattr(f, "__qualname__", repr(f)),
                    "module": getattr(f, "__module__", None), "sha256_16": src_hash(f)})
    return out


# --------------------------------------------------------------------------
# M4: `int` and `hash` shadows injected as module globals of the puan modules

class _IntMeta(type):
    def __instancecheck__(cls, inst):
        return isinstance(inst, (builtins.int, S.SymInt))

    def __subclasscheck__(cls, sub):
        return issubclass(sub, (builtins.int, S.SymInt))

    def __call__(cls, *a, **k):
        if len(a) == 1 and not k and isinstance(a[0], (S.SymInt,)):
            return a[0]
        if len(a) == 1 and not k and isinstance(a[0], S.SymBool):
            return a[0]._i()
        return builtins.int(*a, **k)

    def __eq__(cls, other):
        return other is cls or other is builtins.int

    def __hash__(cls):
        return hash(builtins.int)


class IntShadow(metaclass=_IntMeta):
    pass


def install_int_shadow():
    n = _ns
    for m in (n.puan, n.pg, n.pnd, n.cc):
        m.__dict__["int"] = IntShadow


def sym_hash(x):
    """model of builtins.hash with z3-term results for proxies (M4).

    pyhash(i) = -2 if i == -1 else i   for |i| < 2**61-1 (CPython small-int hash)."""
    if isinstance(x, S.SymInt):
        return S.SymInt(z3.If(x.e == -1, z3.IntVal(-2), x.e))
    if isinstance(x, builtins.int) and not isinstance(x, bool):
        return builtins.hash(x)
    if isinstance(x, tuple):
        # CPython's tuple hash is modelled as INJECTIVE on the hashes of its components
        return SymHashTuple([sym_hash(e) for e in x])
    cls = type(x)
    if getattr(cls, "__module__", "").startswith("puan") and "__hash__" in cls.__dict__:
        return cls.__hash__(x)
    return builtins.hash(x)


class SymHashTuple:
    def __init__(self, parts):
        self.parts = parts

    def __repr__(self):
        return "SymHashTuple(%r)" % (self.parts,)


def hash_equal(h1, h2):
    """z3 Bool: are two modelled hash values equal?"""
    if isinstance(h1, SymHashTuple) or isinstance(h2, SymHashTuple):
        if not (isinstance(h1, SymHashTuple) and isinstance(h2, SymHashTuple)) or len(h1.parts) != len(h2.parts):
            return z3.BoolVal(False)
        return z3.And([hash_equal(a, b) for a, b in zip(h1.parts, h2.parts)])
    return S.term(h1) == S.term(h2)


class hash_shadow:
    """context manager: inside, `hash(...)` in puan/__init__.py and plog resolves to sym_hash"""

    def __enter__(self):
        n = _ns
        for m in (n.puan, n.pg):
            m.__dict__["hash"] = sym_hash
        return self

    def __exit__(self, *a):
        n = _ns
        for m in (n.puan, n.pg):
            m.__dict__.pop("hash", None)
        return False


# --------------------------------------------------------------------------
# M10: symbolic dictionaries

class SymDict(dict):
    """dict over a concrete universe of keys; presence of each key is a symbolic Bool.

    Every read access goes through __contains__/get/__getitem__/iteration, each of which
    forks on the presence flag of the key concerned.  Values are whatever the harness
    supplies (proxies, tuples of proxies, Bounds of proxies)."""

    def __init__(self, entries):
        # entries: {key: (presence: SymBool|bool, value)}
        super().__init__()
        self._e = dict(entries)
        self.decided = {}        # key -> bool, as decided on the current path

    def _present(self, k):
        try:
            if k not in self._e:
                return False
        except TypeError:
            return False
        if k in self.decided:
            return self.decided[k]
        p = self._e[k][0]
        r = bool(p)
        self.decided[k] = r
        return r

    def __contains__(self, k):
        return self._present(k)

    def get(self, k, default=None):
        return self._e[k][1] if self._present(k) else default

    def __getitem__(self, k):
        if self._present(k):
            return self._e[k][1]
        raise KeyError(k)

    def keys(self):
        return [k for k in self._e if self._present(k)]

    def __iter__(self):
        return iter(self.keys())

    def values(self):
        return [self._e[k][1] for k in self.keys()]

    def items(self):
        return [(k, self._e[k][1]) for k in self.keys()]

    def __len__(self):
        return len(self.keys())

    def __bool__(self):
        return len(self) > 0

    def __repr__(self):
        return "SymDict(%r)" % (self._e,)

    def __setitem__(self, k, v):
        raise S.HarnessError("code under test writes into its argument dictionary")

    def update(self, *a, **k):
        raise S.HarnessError("code under test writes into its argument dictionary")


class UnionDict(dict):
    """F ∪ R for two (symbolic) dictionaries with F taking precedence"""

    def __init__(self, f, r):
        super().__init__()
        self._f, self._r = f, r

    def __contains__(self, k):
        return (k in self._f) or (k in self._r)

    def get(self, k, default=None):
        if k in self._f:
            return self._f.get(k)
        return self._r.get(k, default)

    def __getitem__(self, k):
        if k in self:
            return self.get(k)
        raise KeyError(k)

    def keys(self):
        ks = list(self._f.keys())
        return ks + [k for k in self._r.keys() if k not in ks]

    def __iter__(self):
        return iter(self.keys())

    def items(self):
        return [(k, self.get(k)) for k in self.keys()]

    def values(self):
        return [self.get(k) for k in self.keys()]

    def __len__(self):
        return len(self.keys())

    def __setitem__(self, k, v):
        raise S.HarnessError("code under test writes into its argument dictionary")


# --------------------------------------------------------------------------
# M5 "decided" mode for hash values: hashing modelled as INJECTIVE on integer values.  Every integer (proxy or concrete) that
# is hashed through the module-level `hash` gets a token; two integers get the same token iff the path decides them equal
# (fork).  Tokens are 3^k multiples so that token(l)+token(u) is injective on the multiset {l,u} (Bounds has l<=u).

def _dec_token(term):
    return S.decided_token(z3.simplify(term))


def inj_hash(x):
    if isinstance(x, S.SymInt):
        return _dec_token(x.e)
    if isinstance(x, bool):
        return _dec_token(z3.IntVal(int(x)))
    if isinstance(x, builtins.int):
        return _dec_token(z3.IntVal(int(x)))
    if isinstance(x, tuple):
        return builtins.hash(tuple(inj_hash(e) for e in x))
    cls = type(x)
    if getattr(cls, "__module__", "").startswith("puan") and "__hash__" in cls.__dict__:
        return cls.__hash__(x)
    return builtins.hash(x)


class inj_hash_shadow:
    def __enter__(self):
        n = _ns
        for m in (n.puan, n.pg):
            m.__dict__["hash"] = inj_hash
        return self

    def __exit__(self, *a):
        n = _ns
        for m in (n.puan, n.pg):
            m.__dict__.pop("hash", None)
        return False


def clear_all_caches(n=None):
    """empty every functools cache found on classes of the repository's modules (a change may introduce new ones);
    called before every instantiation so that instantiations sharing a worker process stay independent"""
    n = n or _ns
    if n is None:
        return
    for mod in (n.puan, n.pg, n.pnd, n.cc):
        for obj in list(vars(mod).values()):
            if isinstance(obj, type):
                for attr in list(vars(obj).values()):
                    f = getattr(attr, "fget", attr)
                    f = getattr(f, "__func__", f)
                    cc_ = getattr(f, "cache_clear", None)
                    if callable(cc_):
                        try:
                            cc_()
                        except Exception:   # noqa
                            pass
            else:
                cc_ = getattr(obj, "cache_clear", None)
                if callable(cc_) and getattr(obj, "__module__", "").startswith("puan"):
                    try:
                        cc_()
                    except Exception:   # noqa
                        pass
