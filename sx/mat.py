"""matrix instantiation family for the ndarray checks (C11, C12): coefficient patterns are concrete, everything else symbolic"""
import random

CURATED_A = [
    [[1, 1, 1]],
    [[-1, -1, -1]],
    [[1, -2, 3], [2, 0, -1]],
    [[2, 3], [-3, 1]],
    [[-2, 1, 1], [1, 1, 0]],                 # big-M like row of a compound: -(v-mn)X + children
    [[-3, 1, 1, 1]],
    [[1, 0, 0], [0, -1, 0]],
    [[3, -3], [1, 1], [-1, 2]],
    [[0, 2, -1], [1, 0, 0]],
    [[-1, -1], [1, 1]],
    [[2, 2, -3], [-1, 0, 1]],
    [[1, 1, -2], [0, 1, 1], [1, -1, 0]],
]


# coefficients whose reciprocal is not exact in binary floating point (numpy does this arithmetic in float64)
BIG_A = [[[-49]], [[1, -49]], [[-75, 2]], [[98, -1], [-49, 1]], [[7, -93]], [[-13, 11]]]


def random_A(rng, max_rows=2, max_cols=3, lo=-3, hi=3):
    r = rng.randint(1, max_rows)
    c = rng.randint(1, max_cols)
    while True:
        A = [[rng.choice([0, 1, 1, -1, -1, 2, -2, 3, -3]) if rng.random() < 0.8 else 0 for _ in range(c)] for _ in range(r)]
        A = [[max(lo, min(hi, v)) for v in row] for row in A]
        if any(any(v != 0 for v in row) for row in A):
            return A


BOX_KINDS = ["bool", "onesym", "allsym", "mixed"]


def boxes_for(kind, ncols, rng):
    """per column: [lo, hi] concrete or "sym" """
    if kind == "bool":
        return [[0, 1] for _ in range(ncols)]
    if kind == "allsym":
        return ["sym"] * ncols
    if kind == "onesym":
        k = rng.randrange(ncols)
        return ["sym" if j == k else [0, 1] for j in range(ncols)]
    out = []
    for j in range(ncols):
        out.append(rng.choice([[0, 1], [-2, 3], [2, 2], "sym", [-5, 10], [-3, -1]]))
    return out
