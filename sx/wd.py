"""well-definedness of a model spec, written once over an abstract boolean algebra so that the harness (z3) and the
replay side (python bools) share the *definition* but not the evaluation.  No z3 import here."""


def occurrences(spec, acc=None):
    """list of dicts: kind, id (None for generated), lo, hi (leaves) / t, value, sign, child keys, vb (compounds)"""
    acc = [] if acc is None else acc
    if spec["t"] == "var":
        acc.append({"kind": "leaf", "id": spec["id"], "lo": spec.get("lo", 0), "hi": spec.get("hi", 1)})
    else:
        acc.append({"kind": "cmp", "id": spec.get("id"), "t": spec["t"], "value": spec.get("value"), "sign": spec.get("sign"),
                    "children": [ckey(c) for c in spec["ch"]], "vb": spec.get("vb")})
        for c in spec["ch"]:
            occurrences(c, acc)
    return acc


def ckey(c):
    if c["t"] == "var":
        return ("id", c["id"])
    if c.get("id"):
        return ("id", c["id"])
    return ("gen", c["t"], str(c.get("value")), str(c.get("sign")), tuple(ckey(x) for x in c["ch"]))


def cyclic(spec, above=()):
    me = spec.get("id") if spec["t"] != "var" else spec["id"]
    if me is not None and me in above:
        return True
    if spec["t"] == "var":
        return False
    nxt = above + ((me,) if me is not None else ())
    return any(cyclic(c, nxt) for c in spec["ch"])


def graph_cyclic(spec):
    """cycle in the id dependency graph: an atom whose id also names a sub-proposition is a reference to it (so siblings that refer
    to each other, or a reference that precedes the definition it closes a ring with, are cycles although no tree path repeats an id)"""
    edges = {}

    def go(n):
        if n["t"] == "var":
            edges.setdefault(n["id"], set())
            return n["id"]
        me = n.get("id") or ("gen", id(n))
        tgt = edges.setdefault(me, set())
        for c in n["ch"]:
            tgt.add(go(c))
        return me
    go(spec)
    state = {}

    def dfs(u):
        state[u] = 1
        for v in edges.get(u, ()):
            if state.get(v) == 1 or (state.get(v) is None and dfs(v)):
                return True
        state[u] = 2
        return False
    return any(state.get(u) is None and dfs(u) for u in list(edges))


def duplicate_child(spec):
    if spec["t"] == "var":
        return False
    ks = [ckey(c) for c in spec["ch"]]
    if len(set(ks)) != len(ks):
        return True
    return any(duplicate_child(c) for c in spec["ch"])


def welldefined(spec, P, EQ, AND, TRUE, FALSE):
    """P(x): parameter value; EQ(a,b), AND(list): algebra.  Returns an element of the algebra."""
    if cyclic(spec) or graph_cyclic(spec) or duplicate_child(spec):
        return FALSE
    occ = [o for o in occurrences(spec) if o["id"] is not None]
    conj = []
    for i in range(len(occ)):
        for j in range(i + 1, len(occ)):
            a, b = occ[i], occ[j]
            if a["id"] != b["id"]:
                continue
            if a["kind"] != b["kind"]:
                return FALSE
            if a["kind"] == "leaf":
                conj.append(EQ(P(a["lo"]), P(b["lo"])))
                conj.append(EQ(P(a["hi"]), P(b["hi"])))
            else:
                if a["t"] != b["t"] or a["children"] != b["children"] or (a["vb"] or [0, 1]) != (b["vb"] or [0, 1]):
                    return FALSE
                if (a["value"] is None) != (b["value"] is None) or (a["sign"] is None) != (b["sign"] is None):
                    return FALSE
                if a["value"] is not None:
                    conj.append(EQ(P(a["value"]), P(b["value"])))
                if a["sign"] is not None:
                    conj.append(EQ(P(a["sign"]), P(b["sign"])))
    return AND(conj) if conj else TRUE


def welldefined_objects(is_leaf, root, P, EQ, AND, TRUE, FALSE):
    """same predicate, but over a BUILT object graph, so that auto-generated ids are the real ones (two different
    sub-propositions may receive the same generated id).  is_leaf(node) -> bool.  Numeric fields go through P."""
    nodes, seen = [], set()

    def walk(n):
        if id(n) in seen:
            return
        seen.add(id(n))
        nodes.append(n)
        if not is_leaf(n):
            for c in n.propositions:
                walk(c)
    walk(root)
    # duplicate child ids under one node
    for n in nodes:
        if not is_leaf(n):
            ids = [c.id for c in n.propositions]
            if len(set(ids)) != len(ids):
                return FALSE
    # cycles in the id graph
    graph = {}
    for n in nodes:
        if not is_leaf(n):
            graph.setdefault(n.id, set()).update(c.id for c in n.propositions)
    state = {}

    def dfs(u):
        state[u] = 1
        for v in graph.get(u, ()):
            if state.get(v) == 1:
                return True
            if state.get(v) is None and dfs(v):
                return True
        state[u] = 2
        return False
    for u in list(graph):
        if state.get(u) is None and dfs(u):
            return FALSE
    conj = []
    for i in range(len(nodes)):
        for j in range(i + 1, len(nodes)):
            a, b = nodes[i], nodes[j]
            if a.id != b.id:
                continue
            if is_leaf(a) != is_leaf(b):
                return FALSE
            conj.append(EQ(P(a.bounds.lower), P(b.bounds.lower)))
            conj.append(EQ(P(a.bounds.upper), P(b.bounds.upper)))
            if not is_leaf(a):
                if [c.id for c in a.propositions] != [c.id for c in b.propositions]:
                    return FALSE
                conj.append(EQ(P(a.sign), P(b.sign)))
                conj.append(EQ(P(a.value), P(b.value)))
    return AND(conj) if conj else TRUE
