"""well-definedness of a model spec, written once over an abstract boolean algebra so that the harness (z3) and the
replay side (python bools) share the *definition* but not the evaluation.  No z3 import here."""


def occurrences(spec, acc=None):
    """list of dicts: kind, id (None for generated), lo, hi (leaves) / t, value, sign, child keys, vb (compounds)"""
    acc = [] if acc is None else acc
    if spec["t"] == "var":
        acc.append({"kind": "leaf", "id": spec["id"], "lo": spec.get("lo", 0), "hi": spec.get("hi", 1)})
    else:
        acc.append({"kind": "cmp", "id": spec.get("id"), "t": spec["t"], "value": spec.get("value"), "sign": spec.get("sign"),
                    "children": [ckey(c) for c in spec["ch"]], "vb": spec.get("vb")})
        for c in spec["ch"]:
            occurrences(c, acc)
    return acc


def ckey(c):
    if c["t"] == "var":
        return ("id", c["id"])
    if c.get("id"):
        return ("id", c["id"])
    return ("gen", c["t"], str(c.get("value")), str(c.get("sign")), tuple(ckey(x) for x in c["ch"]))


def cyclic(spec, above=()):
    me = spec.get("id") if spec["t"] != "var" else spec["id"]
    if me is not None and me in above:
        return True
    if spec["t"] == "var":
        return False
    nxt = above + ((me,) if me is not None else ())
    return any(cyclic(c, nxt) for c in spec["ch"])


def duplicate_child(spec):
    if spec["t"] == "var":
        return False
    ks = [ckey(c) for c in spec["ch"]]
    if len(set(ks)) != len(ks):
        return True
    return any(duplicate_child(c) for c in spec["ch"])


def welldefined(spec, P, EQ, AND, TRUE, FALSE):
    """P(x): parameter value; EQ(a,b), AND(list): algebra.  Returns an element of the algebra."""
    if cyclic(spec) or duplicate_child(spec):
        return FALSE
    occ = [o for o in occurrences(spec) if o["id"] is not None]
    conj = []
    for i in range(len(occ)):
        for j in range(i + 1, len(occ)):
            a, b = occ[i], occ[j]
            if a["id"] != b["id"]:
                continue
            if a["kind"] != b["kind"]:
                return FALSE
            if a["kind"] == "leaf":
                conj.append(EQ(P(a["lo"]), P(b["lo"])))
                conj.append(EQ(P(a["hi"]), P(b["hi"])))
            else:
                if a["t"] != b["t"] or a["children"] != b["children"] or (a["vb"] or [0, 1]) != (b["vb"] or [0, 1]):
                    return FALSE
                if (a["value"] is None) != (b["value"] is None) or (a["sign"] is None) != (b["sign"] is None):
                    return FALSE
                if a["value"] is not None:
                    conj.append(EQ(P(a["value"]), P(b["value"])))
                if a["sign"] is not None:
                    conj.append(EQ(P(a["sign"]), P(b["sign"])))
    return AND(conj) if conj else TRUE
