"""Check driver: instantiation pool, final queries, replay, known findings, evidence, exit codes.

Exit codes: 0 held on everything explored (KNOWN-FINDING lines allowed); 1 new replay-confirmed
violation; 2 inconclusive (cap / unknown); 3 harness mismatch or vacuity failure.
"""
import collections
import importlib
import json
import multiprocessing as mp
import os
import subprocess
import sys
import time
import traceback

VERIF = os.path.dirname(os.path.dirname(os.path.abspath(__file__)))
PLAIN_PY = "/venv/bin/python"
MAX_CEX_PER_INST = 3
MAX_VALIDATIONS_PER_INST = 3


# --------------------------------------------------------------------------
# worker side

class Run:
    """collects what one instantiation did; passed to the check module's harness"""

    def __init__(self, spec, open_keys=()):
        self.spec = spec
        self.open_keys = list(open_keys)
        self.q = collections.Counter()
        self.cex = []
        self.regions = set()
        self.samples = []
        self.validations = []
        self.nontrivial = 0
        self.final_s = 0.0
        self.notes = []
        self._npaths = 0
        self._extreme_samples = 0

    def region(self, name):
        self.regions.add(name)

    def path(self, ctx, free=True):
        self._npaths += 1
        if free:
            self.nontrivial += 1

    def obligation(self, ctx, label, viol, concretize, known=None, extra=None, soft=False):
        """viol: z3 Bool (or SymBool / python bool) that is satisfiable iff the property fails on
        this path.  concretize(model) -> JSON-able inputs.  known: {finding key: z3 Bool} classes
        of *open* known findings on this instantiation; they are excluded from the main query
        and asked separately."""
        import z3
        from . import core as S
        if isinstance(viol, S.SymBool):
            viol = viol.e
        if isinstance(viol, bool):
            viol = z3.BoolVal(viol)
        known = {k: v for k, v in (known or {}).items() if k in self.open_keys}
        t0 = time.time()
        main = viol
        for k, pred in known.items():
            main = z3.And(main, z3.Not(pred if not isinstance(pred, bool) else z3.BoolVal(pred)))
        r, m = ctx.query(main)
        self.q[r] += 1
        if r == "sat" and len(self.cex) < MAX_CEX_PER_INST:
            self.cex.append({"ob": label, "inputs": concretize(m), "known_key": None, "extra": extra(m) if callable(extra) else extra, "soft": soft})
        for k, pred in known.items():
            pz = pred if not isinstance(pred, bool) else z3.BoolVal(pred)
            r2, m2 = ctx.query(z3.And(viol, pz))
            self.q["known:" + r2] += 1
            if r2 == "sat" and sum(1 for c in self.cex if c["known_key"] == k) < 1:
                self.cex.append({"ob": label, "inputs": concretize(m2), "known_key": k, "extra": extra(m2) if callable(extra) else extra})
        self.final_s += time.time() - t0
        return r

    def validate(self, ctx, concretize, predict, extremes=None, known=None):
        """translator validation: pick a model of this path, record concrete inputs and the
        outputs SX predicts for them; the driver runs the real code on them in a plain interpreter.
        extremes: optional z3 Bool ("some input sits on a boundary of its range"); if satisfiable on this path a second,
        boundary-biased sample is recorded as well (machine-integer effects live on the boundaries)."""
        if len(self.validations) >= MAX_VALIDATIONS_PER_INST + (4 if extremes is not None else 0):
            return
        import z3
        # inputs inside the class of an open known finding are validated (prediction vs real) but not judged again
        kn = [v for k, v in (known or {}).items() if k in self.open_keys]
        kn = z3.Or([v if not isinstance(v, bool) else z3.BoolVal(v) for v in kn]) if kn else None

        def in_known(m):
            return bool(kn is not None and z3.is_true(m.eval(kn, model_completion=True)))
        if len(self.validations) < MAX_VALIDATIONS_PER_INST:
            ctx._ensure_model()
            m = ctx.model
            self.validations.append({"inputs": concretize(m), "predicted": predict(m), "nojudge": in_known(m)})
        if extremes is not None and self._extreme_samples < 4:
            r, m2 = ctx.query(extremes)
            if r == "sat":
                self._extreme_samples += 1
                self.validations.append({"inputs": concretize(m2), "predicted": predict(m2), "nojudge": in_known(m2)})

    def sample(self, obj):
        if len(self.samples) < 2:
            self.samples.append(obj)

    def skipped(self, why):
        return {"name": self.spec.get("name"), "status": "skipped", "why": why}

    def result(self, stats):
        return {"name": self.spec.get("name"), "status": "ok", "stats": stats.as_dict(), "queries": dict(self.q),
                "cex": self.cex, "regions": sorted(self.regions), "samples": self.samples,
                "validations": self.validations, "nontrivial": self.nontrivial,
                "final_s": round(self.final_s, 3), "notes": self.notes}


def _work(arg):
    modname, spec, open_keys = arg
    sys.setrecursionlimit(10000)
    from . import core as S
    t0 = time.time()
    try:
        mod = importlib.import_module(modname)
        run = Run(spec, open_keys)
        from . import env as _E
        _E.clear_all_caches()
        out = mod.run_inst(spec, run)
        out["spec"] = spec
        out["wall_s"] = round(time.time() - t0, 3)
        return out
    except S.Inconclusive as e:
        return {"name": spec.get("name"), "spec": spec, "status": "inconclusive", "why": str(e),
                "wall_s": round(time.time() - t0, 3)}
    except S.HarnessError as e:
        return {"name": spec.get("name"), "spec": spec, "status": "harness_error",
                "why": "".join(traceback.format_exception(type(e), e, e.__traceback__))[-3000:],
                "wall_s": round(time.time() - t0, 3)}
    except BaseException as e:   # noqa
        return {"name": spec.get("name"), "spec": spec, "status": "harness_error",
                "why": "".join(traceback.format_exception(type(e), e, e.__traceback__))[-3000:],
                "wall_s": round(time.time() - t0, 3)}


# --------------------------------------------------------------------------
# plain-interpreter side (replay / validation)

def plain_batch(prop, items):
    """items: [{"spec":..,"inputs":..,"ob":..}] -> [{"outputs":..,"violated":bool,"msg":str}|{"error":..}]"""
    if not items:
        return []
    repo = os.environ.get("VERIF_REPO", "/repo")
    env = dict(os.environ)
    env["PYTHONPATH"] = repo + os.pathsep + VERIF
    env.pop("PYTHONHASHSEED", None)
    p = subprocess.run([PLAIN_PY, "-W", "ignore", os.path.join(VERIF, "replays", "run.py"), "--batch", prop],
                       input=json.dumps(items), capture_output=True, text=True, env=env, cwd=VERIF, timeout=3600)
    if p.returncode != 0:
        raise RuntimeError("plain replay batch failed: %s\n%s" % (p.returncode, p.stderr[-3000:]))
    return json.loads(p.stdout)


def load_findings():
    p = os.path.join(VERIF, "known_findings.json")
    if not os.path.exists(p):
        return []
    return json.load(open(p)).get("findings", [])


# --------------------------------------------------------------------------

def run_check(prop, tier, seed, jobs=None):
    t0 = time.time()
    modname = "checks.%s" % prop.lower()
    mod = importlib.import_module(modname)
    findings = [f for f in load_findings() if f["property"] == prop]
    open_f = [f for f in findings if f.get("status") == "open"]
    open_keys = [f["key"] for f in open_f]

    insts = list(mod.instantiations(tier, seed))
    for i, s in enumerate(insts):
        s.setdefault("name", "%s-%04d" % (prop, i))
        s.setdefault("kind", "main")
    only = [x for x in os.environ.get("VERIF_ONLY", "").split(",") if x]     # developer aid: restrict to named instantiations
    if only:
        insts = [s for s in insts if s["name"] in only or s["kind"] == "mutant"]
    jobs = jobs or int(os.environ.get("VERIF_JOBS", "0")) or min(16, os.cpu_count() or 4)
    args = [(modname, s, open_keys) for s in insts]
    ctxm = mp.get_context("fork")
    if jobs > 1 and len(args) > 1:
        with ctxm.Pool(jobs, maxtasksperchild=20) as pool:
            results = pool.map(_work, args, chunksize=1)
    else:
        results = [_work(a) for a in args]

    lines = []
    exit_code = 0
    harness_errors, inconclusive = [], []
    tot = collections.Counter()
    qtot = collections.Counter()
    regions = set()
    samples = []
    mutants_expected, mutants_refuted = 0, 0
    info_notes = []
    cex_items, val_items = [], []
    nontrivial = 0
    final_s = 0.0
    per_kind = collections.Counter()
    for r in results:
        kind = r["spec"].get("kind", "main")
        per_kind[kind] += 1
        if r["status"] == "skipped":
            per_kind["skipped:" + r["why"]] += 1
            per_kind[kind] -= 1
            continue
        if r["status"] == "inconclusive":
            inconclusive.append((r["name"], r["why"]))
            continue
        if r["status"] == "harness_error":
            harness_errors.append((r["name"], r["why"]))
            continue
        for k, v in r["stats"].items():
            tot[k] += v
        final_s += r["final_s"]
        if kind == "mutant":
            mutants_expected += 1
            if r["queries"].get("sat", 0) > 0:
                mutants_refuted += 1
            else:
                harness_errors.append((r["name"], "oracle mutant %r not refuted: harness is vacuous" % r["spec"].get("mutant")))
            continue
        for k, v in r["queries"].items():
            qtot[k] += v
        if r["queries"].get("unknown", 0) or r["queries"].get("known:unknown", 0):
            inconclusive.append((r["name"], "solver returned unknown on a final query"))
        regions.update(r["regions"])
        nontrivial += r["nontrivial"]
        for nt in r.get("notes", []):
            if isinstance(nt, dict) and "note" in nt and len(info_notes) < 50:
                info_notes.append(nt["note"])
        if len(samples) < 6:
            samples.extend(r["samples"][:1])
        for c in r["cex"]:
            cex_items.append({"spec": r["spec"], "inputs": c["inputs"], "ob": c["ob"], "known_key": c["known_key"],
                              "extra": c.get("extra"), "soft": c.get("soft", False)})
        for v in r["validations"]:
            val_items.append({"spec": r["spec"], "inputs": v["inputs"], "ob": None, "predicted": v["predicted"], "nojudge": v.get("nojudge", False)})

    # ---- translator validation against the real code in an unpatched interpreter
    validated = 0
    val_violations = []
    try:
        outs = plain_batch(prop, val_items)
        for it, o in zip(val_items, outs):
            if "error" in o:
                harness_errors.append((it["spec"]["name"], "validation run failed: " + o["error"]))
                continue
            pred = it["predicted"]
            bad = {k: (pred[k], o["outputs"].get(k)) for k in pred if o["outputs"].get(k) != pred[k]}
            hv = o.get("history_violation")
            if hv and not it.get("nojudge") and not o.get("violated"):
                # right in a fresh process, wrong after the same observation ran on other solver-chosen inputs in the same process
                val_violations.append((dict(it, history=hv["history"]), {"outputs": hv["outputs"], "violated": True,
                                       "msg": "[after %d other solver-chosen inputs were handled in the same process] %s" % (len(hv["history"]), hv["msg"])}))
            if o.get("violated") and not it.get("nojudge"):
                # the real code, run on inputs chosen by the solver, violates the property according to the plain oracle:
                # a genuine, already replayed violation (typically machine-integer behaviour that SX's unbounded integers do not show)
                val_violations.append((it, o))
            elif bad:
                harness_errors.append((it["spec"]["name"], "HARNESS-MISMATCH (validation) inputs=%s predicted-vs-real=%s"
                                       % (json.dumps(it["inputs"]), json.dumps(bad))))
            else:
                validated += 1
    except Exception as e:   # noqa
        harness_errors.append(("validation", str(e)))

    # ---- replay counterexamples
    scratch = os.path.realpath(os.environ.get("VERIF_REPO", "/repo")) != os.path.realpath("/repo")
    ev_dir = os.path.join(VERIF, "evidence", "_scratch") if scratch else os.path.join(VERIF, "evidence")   # runs against a scratch copy never overwrite the evidence of /repo
    rep_dir = os.path.join(ev_dir, "replays", prop)
    violations, known_hits, mismatches = [], collections.Counter(), 0
    suppressed = 0
    soft_unconfirmed = 0
    replays_run = 0
    if cex_items:
        os.makedirs(rep_dir, exist_ok=True)
        try:
            outs = plain_batch(prop, cex_items)
        except Exception as e:   # noqa
            outs = [{"error": str(e)}] * len(cex_items)
        seen_sig = set()
        for it, o in zip(cex_items, outs):
            replays_run += 1
            if "error" in o:
                harness_errors.append((it["spec"]["name"], "replay failed to run: " + o["error"]))
                continue
            if not o["violated"] and it.get("soft"):
                # a *candidate* (e.g. a hash collision): only a violation if the real code then misbehaves; it did not
                soft_unconfirmed += 1
                continue
            if not o["violated"]:
                mismatches += 1
                harness_errors.append((it["spec"]["name"], "HARNESS-MISMATCH: counterexample does not reproduce on the real code: ob=%s inputs=%s"
                                       % (it["ob"], json.dumps(it["inputs"]))))
                continue
            if it["known_key"]:
                known_hits[it["known_key"]] += 1
                continue
            sig = (it["ob"], json.dumps(it["spec"].get("model", it["spec"].get("name")), sort_keys=True)[:200])
            if sig in seen_sig or len(violations) >= 5:
                suppressed += 1
                continue
            seen_sig.add(sig)
            path = os.path.join(rep_dir, "%s-%s-%d.json" % (it["spec"]["name"], str(it["ob"]).replace("/", "_")[:40], len(violations)))
            json.dump({"property": prop, "spec": it["spec"], "inputs": it["inputs"], "ob": it["ob"], "observed": o}, open(path, "w"), indent=1)
            violations.append((path, o.get("msg", "")))

    for it, o in val_violations[:3]:
        os.makedirs(rep_dir, exist_ok=True)
        path = os.path.join(rep_dir, "%s-validation-%d.json" % (it["spec"]["name"], len(violations)))
        json.dump({"property": prop, "spec": it["spec"], "inputs": it["inputs"], "ob": "validation", "observed": o, "history": it.get("history")}, open(path, "w"), indent=1)
        violations.append((path, "[found when the real code was run on a solver-chosen input] " + o.get("msg", "")))

    # ---- open known findings: replay stored witnesses
    for f in open_f:
        wpath = os.path.join(VERIF, f["witness"])
        try:
            w = json.load(open(wpath))
            o = plain_batch(prop, [{"spec": w["spec"], "inputs": w["inputs"], "ob": w.get("ob")}])[0]
            if o.get("violated"):
                lines.append("KNOWN-FINDING: property=%s %s [%s; witness %s; symbolic hits this run: %d]"
                             % (prop, f["what"], f["key"], f["witness"], known_hits.get(f["key"], 0)))
            else:
                lines.append("NOTE: known finding %s/%s: stored witness no longer fails on this tree" % (prop, f["key"]))
        except Exception as e:   # noqa
            harness_errors.append(("finding:" + f["key"], "could not replay stored witness: %s" % e))

    # ---- vacuity: regions
    need = list(getattr(mod, "REGIONS", []))
    missing = [r for r in need if r not in regions]
    if missing:
        harness_errors.append(("regions", "declared regions not reached: %s" % missing))
    if per_kind.get("main", 0) == 0:
        harness_errors.append(("family", "no instantiation"))

    for path, msg in violations:
        lines.append("VIOLATION property=%s replay=%s" % (prop, path))
        lines.append("  " + msg[:400])
    if suppressed:
        lines.append("  (+%d further replay-confirmed counterexamples of the same property not listed)" % suppressed)
    if violations:
        exit_code = 1
    elif harness_errors:
        exit_code = 3
    elif inconclusive:
        exit_code = 2

    for nt in info_notes[:3]:
        lines.append("NOTE: " + nt[:400])
    if len(info_notes) > 3:
        lines.append("  (+%d further notes, see evidence)" % (len(info_notes) - 3))
    for n, w in harness_errors[:4]:
        w = w.strip()
        lines.append("HARNESS-ERROR %s: %s" % (n, w if len(w) <= 1800 else w[:900] + " [...] " + w[-900:]))
    if len(harness_errors) > 4:
        lines.append("  (+%d further harness errors)" % (len(harness_errors) - 4))
    for n, w in inconclusive[:10]:
        lines.append("INCONCLUSIVE %s: %s" % (n, w))

    wall = time.time() - t0
    from . import env as E
    ns = E.load_repo()
    funcs = E.functions_encoded(mod.functions(ns))
    queries_total = sum(v for k, v in qtot.items())
    ev = {
        "property_id": prop, "tier": tier, "seed": seed, "level": "model_checking",
        "coverage": {
            "states": int(tot["paths"]) or 1,
            "transitions": int(tot["decisions"]) or 1,
            "traces_validated_against_impl": validated + replays_run,
            "samples": samples or [{"note": "no path sample recorded"}],
            "evaluations": max(int(queries_total), 1),
            "distinct_nontrivial": int(nontrivial),
            "rule": "one evaluation = one final SMT query (path condition AND negated property) on one explored path of one "
                    "instantiation; a path is non-trivial when its path condition is satisfiable, it reaches the assertion and "
                    "at least one symbolic input is still free; paths are distinct by construction (distinct decision prefixes)",
            "functions_encoded": funcs,
            "technique": "bounded symbolic execution of the repository's own functions on z3 proxy integers (SX) + SMT (z3 %s)" % _z3v(),
            "bounds": getattr(mod, "BOUNDS", ""),
            "outside_claim": getattr(mod, "OUTSIDE", ""),
            "instantiations": {k: v for k, v in per_kind.items()},
            "family": getattr(mod, "FAMILY", ""),
            "paths_explored": int(tot["paths"]), "paths_infeasible": int(tot["infeasible"]),
            "decisions": int(tot["decisions"]), "feasibility_checks": int(tot["feasibility_checks"]),
            "queries_by_verdict": dict(qtot),
            "solver_s_feasibility": round(tot["solver_s"], 2), "solver_s_final": round(final_s, 2),
            "nonlinear_products": int(tot["nonlinear_products"]),
            "second_solver": {"solver": "cvc5 1.4.0 (python wheel) on the SMT-LIB2 text of the final query", "queries_rechecked": int(tot["second_solver_checks"]),
                              "agreements": int(tot["second_solver_agreements"]), "policy": "every sat and every VERIF_CVC5_EVERY-th final query; a disagreement makes the run inconclusive (exit 2)"},
            "regions_required": need, "regions_reached": sorted(regions),
            "oracle_mutants": {"run": mutants_expected, "refuted": mutants_refuted},
            "replays_run": replays_run, "replay_mismatches": mismatches, "candidates_not_confirmed_by_replay": soft_unconfirmed,
            "translator_validations": validated,
            "known_finding_hits": dict(known_hits),
            "informational_notes": info_notes[:20],
            "inconclusive": [list(x) for x in inconclusive[:20]],
            "harness_errors": [n for n, _ in harness_errors[:20]],
            "repo": os.environ.get("VERIF_REPO", "/repo"),
            "exhaustive": False,
        },
        "assumptions": list(getattr(mod, "ASSUMPTIONS", [])),
        "wall_s": round(wall, 2),
        "violations": len(violations),
    }
    os.makedirs(ev_dir, exist_ok=True)
    json.dump(ev, open(os.path.join(ev_dir, "%s.json" % prop), "w"), indent=1, default=str)
    slow = sorted(((r.get("wall_s", 0), r.get("name")) for r in results), reverse=True)[:3]
    ev["coverage"]["slowest_instantiations"] = [[n, w] for w, n in slow]
    json.dump(ev, open(os.path.join(ev_dir, "%s.json" % prop), "w"), indent=1, default=str)
    for l in lines:
        print(l)
    print("slowest: %s" % slow)
    print("%s tier=%s seed=%d insts=%d paths=%d queries=%s validated=%d replays=%d wall=%.1fs exit=%d"
          % (prop, tier, seed, len(insts), tot["paths"], dict(qtot), validated, replays_run, wall, exit_code))
    return exit_code


def _z3v():
    try:
        import z3
        return z3.get_version_string()
    except Exception:   # noqa
        return "?"


def replay_file(prop, path):
    w = json.load(open(path))
    o = plain_batch(prop, [{"spec": w["spec"], "inputs": w["inputs"], "ob": w.get("ob"), "history": w.get("history")}])[0]
    print(json.dumps(o, indent=1))
    if o.get("violated"):
        print("VIOLATION property=%s replay=%s" % (prop, path))
        return 1
    return 0
