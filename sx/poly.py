"""helpers for the polyhedron checks: concrete matrix (from the real FFI) -> z3 row constraints"""
import copy
import random

import z3

from . import core as S
from . import pl

BOXES = [(0, 1), (-2, 3), (-5, 10), (2, 2), (-32768, 32767), (0, 4), (-3, -1)]


def rows(M, colterm):
    """M: concrete integer matrix [b | A] with M.variables; colterm: id -> z3 term.  Returns list of z3 Bool, one per row."""
    out = []
    vs = list(M.variables)[1:]
    for i in range(M.shape[0]):
        lhs = z3.IntVal(0)
        for j, v in enumerate(vs):
            a = int(M[i, j + 1])
            if a != 0:
                lhs = lhs + a * colterm[v.id]
        out.append(lhs >= int(M[i, 0]))
    return out


def reparam(spec, rng, boxes=BOXES):
    """concrete re-parameterisation of a skeleton: new thresholds, signs kept, integer-leaf boxes from `boxes`"""
    s = copy.deepcopy(spec)
    box = {}

    def go(n):
        if n["t"] == "var":
            if (n.get("lo", 0), n.get("hi", 1)) != (0, 1):
                if n["id"] not in box:
                    box[n["id"]] = rng.choice(boxes)
                n["lo"], n["hi"] = box[n["id"]]
            return
        for c in n["ch"]:
            go(c)
        if n["t"] in ("AtLeast", "AtMost") and not n.get("_keep"):
            lo = sum(min(0, _lo(c)) for c in n["ch"])
            hi = sum(max(1, _hi(c)) for c in n["ch"])
            span = [lo - 1, lo, lo + 1, 0, 1, 2, hi - 1, hi, hi + 1, rng.randint(lo - 1, hi + 1)]
            v = rng.choice(span)
            if n["t"] == "AtLeast":
                if n.get("sign") == -1:
                    v = -v
                if n.get("sign") is None and v == 0:
                    v = 1
            n["value"] = v
    go(s)
    return s


def siblings(spec, limit=8):
    """models over the same ids that differ from `spec` in ONE nested place: a nested AtLeast/AtMost threshold moved by one (both ways, and the
    magnitude pair 1<->2 whose negatives share a CPython hash), or a nested integer leaf's bound -1<->-2: the call-history prefix for the
    "every history" reading"""
    SW = {1: 2, 2: 1, -1: -2, -2: -1}
    places = []

    def enum(n, path, depth):
        if n["t"] == "var":
            if depth >= 2 and (n.get("lo") in SW or n.get("hi") in SW) and (n.get("lo", 0), n.get("hi", 1)) != (0, 1):
                places.append((path, "box"))
            return
        if depth >= 1 and n["t"] in ("AtLeast", "AtMost") and isinstance(n.get("value"), int):
            places.append((path, "value"))
        for k, c in enumerate(n["ch"]):
            enum(c, path + (k,), depth + 1)
    enum(spec, (), 0)
    out = []
    for path, what in places:
        variants = ("swap", 1, -1) if what == "value" else ("swap",)
        for var in variants:
            s = copy.deepcopy(spec)
            n = s
            for k in path:
                n = n["ch"][k]
            if what == "value":
                v = n["value"]
                nv = SW.get(v) if var == "swap" else v + var
                if nv is None or nv == v or (var != "swap" and SW.get(v) == nv):
                    continue
                n["value"] = nv
            else:
                lo, hi = SW.get(n["lo"], n["lo"]), SW.get(n["hi"], n["hi"])
                if lo > hi:
                    continue
                # the same leaf id must keep one definition throughout the model
                _rebox(s, n["id"], lo, hi)
            out.append(s)
    return out[:limit]


def _rebox(s, lid, lo, hi):
    if s["t"] == "var":
        if s["id"] == lid:
            s["lo"], s["hi"] = lo, hi
        return
    for c in s["ch"]:
        _rebox(c, lid, lo, hi)


def _lo(c):
    return c.get("lo", 0) if c["t"] == "var" else 0


def _hi(c):
    return c.get("hi", 1) if c["t"] == "var" else 1


def prefixed(ns, model):
    """is any sub-proposition (compound) pre-fixed to a constant by its own bounds?"""
    for nd in model.flatten():
        if not issubclass(nd.__class__, ns.puan.variable):
            if S.concrete(nd.bounds.lower) == S.concrete(nd.bounds.upper):
                return True
    return False
