"""M1/M2: numpy `int64`/float storage replaced by object storage so proxies survive; everything else is real numpy.

install(pnd) re-points the default dtype of variable_ndarray/ge_polyhedron/ge_polyhedron_config.__new__ to `object` and
replaces the module attribute `puan.ndarray.numpy` by a forwarding shim.  uninstall(pnd) restores both.
selfcheck(pnd) runs shimmed vs. real on concrete inputs (differential validation, run by every check that uses the shim).
"""
import math

import numpy as _np
import z3

from . import core as S

_NUMERIC = (int, float, _np.int64, _np.float64, _np.int32, _np.float32, _np.int16, _np.int8)


def _is_numeric_dtype(dt):
    if dt is None:
        return False
    try:
        if dt in _NUMERIC:
            return True
    except TypeError:
        pass
    try:
        return _np.dtype(dt).kind in "iuf"
    except TypeError:
        return getattr(dt, "__name__", "") == "IntShadow"


def _floor1(x):
    if isinstance(x, (S.SymInt, S.SymQ, S.SymDivZero)):
        return x.__floor__()
    if isinstance(x, float):
        if math.isnan(x) or math.isinf(x):
            return x
        return math.floor(x)
    return math.floor(x)


def _isnan1(x):
    return isinstance(x, (float, _np.floating)) and x != x


def _homog(obj):
    """shape of a nested list/tuple, ValueError (as real numpy with a numeric dtype) when ragged"""
    if isinstance(obj, (list, tuple)):
        if len(obj) == 0:
            return (0,)
        shapes = [_homog(o) for o in obj]
        if any(sh != shapes[0] for sh in shapes):
            raise ValueError("setting an array element with a sequence. The requested array has an inhomogeneous shape")
        return (len(obj),) + shapes[0]
    if isinstance(obj, _np.ndarray):
        return obj.shape
    return ()


class Shim:
    int64 = object

    def __init__(self):
        self.requested = None

    def __getattr__(self, n):
        return getattr(_np, n)

    def zeros(self, shape, dtype=float, **kw):
        a = _np.empty(shape, dtype=object)
        a.fill(0)
        return a

    def ones(self, shape, dtype=float, **kw):
        a = _np.empty(shape, dtype=object)
        a.fill(1)
        return a

    def array(self, obj, dtype=None, **kw):
        if _is_numeric_dtype(dtype):
            dtype = object
            _homog(obj)
        return _np.array(obj, dtype=dtype, **kw)

    def fromiter(self, it, dtype=None, count=-1, **kw):
        if _is_numeric_dtype(dtype):
            xs = list(it) if count is None or count < 0 else [x for _, x in zip(range(count), it)]
            a = _np.empty((len(xs),), dtype=object)
            for i, x in enumerate(xs):
                a[i] = x
            return a
        return _np.fromiter(it, dtype=dtype, count=count, **kw)

    def asarray(self, obj, dtype=None, **kw):
        if _is_numeric_dtype(dtype) or dtype is object:
            dtype = object
            _homog(obj)
        return _np.asarray(obj, dtype=dtype, **kw)

    def isnan(self, a):
        return _np.frompyfunc(_isnan1, 1, 1)(a).astype(bool)

    def floor(self, a):
        return _np.frompyfunc(_floor1, 1, 1)(a)

    def _fold(self, a, axis, better, real):
        if getattr(a, "dtype", None) != object or not any(isinstance(v, S.SymDivZero) for v in a.flat):
            return real(a, axis=axis)
        if axis is None:
            a = a.reshape(-1)
            axis = 0
        m = _np.moveaxis(a, axis, 0)
        out = _np.empty(m.shape[1:], dtype=object)
        for idx in _np.ndindex(*m.shape[1:]):
            acc = m[(0,) + idx]
            for k in range(1, m.shape[0]):
                acc = _pick(acc, m[(k,) + idx], better)
            out[idx] = acc
        return out

    def max(self, a, axis=None, **kw):
        return self._fold(a, axis, "gt", _np.max)

    def min(self, a, axis=None, **kw):
        return self._fold(a, axis, "lt", _np.min)

    def divide(self, a, b, out=None, where=True, **kw):
        """numpy.divide on object arrays (exact rationals, M2), honouring out= / where="""
        a_, b_ = _np.broadcast_arrays(_np.asarray(a, dtype=object), _np.asarray(b, dtype=object))
        w_ = _np.broadcast_to(_np.asarray(where), a_.shape)
        res = _np.empty(a_.shape, dtype=object)
        for idx in _np.ndindex(*a_.shape):
            if w_[idx]:
                res[idx] = a_[idx] / b_[idx]
            else:
                res[idx] = out[idx] if out is not None else 0.0
        return res

    def abs(self, a):
        return _np.frompyfunc(abs, 1, 1)(a) if getattr(a, "dtype", None) == object else _np.abs(a)


def _pick(a, b, better):
    """float max/min with nan propagation (numpy semantics) on proxies"""
    for v in (a, b):
        if isinstance(v, S.SymDivZero) and bool(v.is_nan()):
            return v
    r = (a > b) if better == "gt" else (a < b)
    return a if bool(r) else b


_saved = {}


def install(pnd):
    if _saved:
        return
    shim = Shim()
    for cls in (pnd.variable_ndarray, pnd.ge_polyhedron, pnd.ge_polyhedron_config):
        f = cls.__dict__["__new__"]
        f = getattr(f, "__func__", f)
        _saved[cls] = (f, f.__defaults__)
        f.__defaults__ = f.__defaults__[:-1] + (object,)
    _saved["numpy"] = pnd.numpy
    pnd.numpy = shim


def uninstall(pnd):
    if not _saved:
        return
    for cls in (pnd.variable_ndarray, pnd.ge_polyhedron, pnd.ge_polyhedron_config):
        f, d = _saved[cls]
        f.__defaults__ = d
    pnd.numpy = _saved["numpy"]
    _saved.clear()


def obj_matrix(rows):
    """list of lists of ints/proxies -> object ndarray whose every entry is a proxy"""
    a = _np.empty((len(rows), len(rows[0]) if rows else 0), dtype=object)
    for i, r in enumerate(rows):
        for j, v in enumerate(r):
            a[i, j] = v if isinstance(v, S.SymInt) else S.K(v)
    return a


def obj_vector(xs):
    a = _np.empty((len(xs),), dtype=object)
    for i, v in enumerate(xs):
        a[i] = v if isinstance(v, S.SymInt) else S.K(v)
    return a
