"""Instantiation families (DESIGN.md §2.4): PL-family model skeletons.  No z3 here."""
import copy
import random

BOOL_LEAVES = ["a", "b", "c", "d"]
INT_LEAVES = ["i", "j"]
ALT_NAMES = [
    {},                                                                  # a b c d i j ; compounds A B C ... (compounds sort before leaves)
    # leaves AND explicit compound ids renamed, so that atoms and compounds interleave in id order (children are kept sorted by id)
    dict({"a": "p", "b": "q", "c": "x", "d": "y", "i": "m", "j": "n"},
         **{"A": "r", "B": "o", "C": "w", "D": "l", "E": "z", "F": "k", "G": "s", "H": "v", "K": "u", "L": "t", "M": "h", "N": "g", "S": "pp"}),
    dict({"a": "k9", "b": "k1", "c": "zeta", "d": "alpha", "i": "u", "j": "t"},
         **{"A": "m", "B": "a", "C": "zz", "D": "k5", "E": "b", "F": "tt", "G": "c", "H": "k0", "K": "v", "L": "al", "M": "ze", "N": "y", "S": "k3"}),
    {"a": "w", "b": "v", "c": "e", "d": "f", "i": "g", "j": "h"},
    dict({"a": "item-1", "b": "Item_2", "c": "3", "d": "é", "i": "qty", "j": "n2"},
         **{"A": "Z", "B": "j", "C": "4", "D": "ö", "E": "Item_1", "F": "item-0", "G": "2", "H": "q", "K": "r", "L": "a", "M": "0", "N": "é2", "S": "m"}),
]


def V(id, lo=0, hi=1, **k):
    d = {"t": "var", "id": id, "lo": lo, "hi": hi}
    d.update(k)
    return d


def N(t, *ch, id=None, **k):
    d = {"t": t, "id": id, "ch": list(ch)}
    d.update(k)
    return d


def AL(value, *ch, id=None, sign=None):
    return {"t": "AtLeast", "id": id, "value": value, "sign": sign, "ch": list(ch)}


def AM(value, *ch, id=None):
    return {"t": "AtMost", "id": id, "value": value, "ch": list(ch)}


def rename(spec, mapping):
    s = copy.deepcopy(spec)

    def go(n):
        if n["t"] == "var":
            n["id"] = mapping.get(n["id"], n["id"])
            for k in ("lo", "hi"):
                if isinstance(n.get(k), str) and n[k].startswith("$"):
                    pre, _, nm = n[k][1:].partition("_")
                    n[k] = "$%s_%s" % (pre, mapping.get(nm, nm))
        else:
            if n.get("id"):
                n["id"] = mapping.get(n["id"], n["id"])
            for k in ("value", "sign"):
                if isinstance(n.get(k), str) and n[k].startswith("$"):
                    pre, _, nm = n[k][1:].partition("_")
                    n[k] = "$%s_%s" % (pre, mapping.get(nm, nm))
        for c in n.get("ch", []):
            go(c)
    go(s)
    return s


def symbolize(spec):
    """explicit-id AtLeast/AtMost nodes get symbolic value (and AtLeast sign); integer leaves get symbolic boxes"""
    s = copy.deepcopy(spec)

    def go(n):
        if n["t"] == "var":
            if (n.get("lo", 0), n.get("hi", 1)) != (0, 1):
                n["lo"], n["hi"] = "$lo_" + n["id"], "$hi_" + n["id"]
        else:
            if n["t"] == "AtLeast" and n.get("id"):
                n["value"] = "$v_" + n["id"]
                n["sign"] = "$s_" + n["id"]
            if n["t"] == "AtMost" and n.get("id"):
                n["value"] = "$v_" + n["id"]
            for c in n["ch"]:
                go(c)
    go(s)
    return s


def a(): return V("a")
def b(): return V("b")
def c(): return V("c")
def d(): return V("d")
def i(): return V("i", -5, 10)
def j(): return V("j", -2, 3)


def curated(kind="general"):
    """hand-written skeletons covering every connective, every nesting position, shared leaves,
    shared sub-propositions, explicit and generated ids, integer leaves"""
    L = []
    # plain one-level nodes
    L.append(AL(2, a(), b(), c(), id="A", sign=1))
    L.append(AL(-1, a(), b(), c(), id="A", sign=-1))
    L.append(AL(3, a(), i(), j(), id="A", sign=1))
    L.append(AL(-4, i(), j(), id="A", sign=-1))
    L.append(AM(1, a(), b(), c(), id="A"))
    L.append(N("All", a(), b(), c(), id="A"))
    L.append(N("Any", a(), b(), id="A"))
    L.append(N("Xor", a(), b(), c(), id="A"))
    L.append(N("XNor", a(), b(), c(), id="A"))
    L.append(N("Imply", a(), b(), id="A"))
    L.append(N("Not", N("Any", a(), b(), id="B")))
    # nesting, mixed atoms/compounds
    L.append(AL(2, a(), i(), AL(1, b(), c(), id="B", sign=1), id="A", sign=1))
    L.append(AL(1, a(), AL(2, b(), c(), j(), id="B", sign=1), AM(1, c(), d(), id="C"), id="A", sign=1))
    L.append(N("All", a(), N("Any", b(), c(), id="B"), id="A"))
    L.append(N("All", a(), b(), N("Any", c(), d(), id="B"), id="A"))
    L.append(N("Any", N("All", a(), b(), id="B"), N("All", c(), d(), id="C"), id="A"))
    L.append(N("Imply", N("All", a(), b(), id="B"), N("Any", c(), d(), id="C"), id="A"))
    L.append(N("Imply", N("Any", a(), b()), N("Xor", c(), d())))
    L.append(N("Xor", N("All", a(), b(), id="B"), c(), id="A"))
    L.append(N("XNor", N("Any", a(), b(), id="B"), c(), d(), id="A"))
    L.append(N("All", N("Not", N("All", a(), b(), id="B")), N("Imply", c(), d(), id="C"), id="A"))
    L.append(AM(1, N("All", a(), b(), id="B"), N("Any", c(), d(), id="C"), a(), id="A"))
    # shared leaf in different subtrees; shared identical sub-proposition (DAG)
    L.append(N("All", N("Any", a(), b(), id="B"), N("Any", a(), c(), id="C"), id="A"))
    L.append(N("Any", N("All", N("Any", a(), b(), id="S"), c(), id="B"), N("All", N("Any", a(), b(), id="S"), d(), id="C"), id="A"))
    L.append(N("All", N("Xor", a(), b()), N("Imply", N("Any", a(), b()), c()), id="A"))
    # compounds without children (validation accepts them): an empty Any can never hold, an empty All always holds
    L.append(N("All", N("Any", a(), N("Any", id="E"), id="B"), N("Any", b(), c(), id="C"), id="A"))
    L.append(N("Any", N("All", id="E"), a(), id="A"))
    L.append(N("Imply", N("Any", a(), N("All", id="E"), id="B"), AL(1, id="F", sign=1), id="A"))
    # integer leaves directly under the logical connectives (arithmetic meaning: Any is "sum >= 1", a negative sibling can cancel a true one)
    L.append(N("Any", j(), a(), id="A"))
    L.append(N("All", N("Any", j(), a(), b(), id="B"), c(), id="A"))
    L.append(N("Imply", N("Any", i(), a()), N("Xor", j(), b(), id="C"), id="A"))
    L.append(N("XNor", i(), a(), b(), id="A"))
    L.append(N("All", i(), N("Any", a(), N("All", j(), b(), id="C"), id="B"), id="A"))
    # a connective directly inside the same connective, inner id generated (flattening the nesting is only valid for 0/1 children)
    L.append(N("All", N("All", i(), j()), c(), id="A"))
    L.append(N("Any", N("Any", j(), a()), b(), id="A"))
    L.append(N("Imply", N("All", N("All", a(), i()), b()), N("Any", N("Any", c(), j()), d()), id="A"))
    # deeper
    L.append(N("All", N("Any", N("All", a(), b(), id="D"), c(), id="B"), AL(2, d(), i(), id="C", sign=1), id="A"))
    L.append(AL(1, AM(2, a(), b(), c(), id="B"), AL(4, i(), j(), id="C", sign=1), id="A", sign=1))
    L.append(AL(0, AL(1, a(), b(), id="B", sign=1), AL(1, c(), d(), id="C", sign=1), id="A", sign=-1))   # negative parent over compounds
    L.append(AL(-1, N("All", a(), b(), id="B"), c(), id="A", sign=-1))
    return L


def random_skeleton(rng, max_nodes=5, max_depth=3, connectives=None, int_leaves=True, explicit_p=0.6):
    connectives = connectives or ["AtLeast", "AtMost", "All", "Any", "Xor", "XNor", "Imply", "Not"]
    counter = {"n": 0, "ids": iter("ABCDEFGHKLMN")}
    shared = []

    def leaf(allow_int):
        # integer leaves mostly under the cardinality connectives, but also (less often) under All/Any/Xor/XNor/Imply, whose meaning is
        # still the arithmetic one ("sum >= 1", ...): a negative sibling can cancel a true one
        if int_leaves and rng.random() < (0.35 if allow_int else 0.12):
            return rng.choice([i, j])()
        return rng.choice([a, b, c, d])()

    def node(depth):
        counter["n"] += 1
        t = rng.choice(connectives)
        if t == "Not" and depth >= max_depth:
            t = "Any"
        nid = next(counter["ids"]) if rng.random() < explicit_p else None
        room = counter["n"] < max_nodes and depth < max_depth

        def child(allow_int):
            if room and counter["n"] < max_nodes and rng.random() < 0.45:
                if shared and rng.random() < 0.2:
                    return copy.deepcopy(rng.choice(shared))
                n = node(depth + 1)
                if n["t"] != "Not":
                    shared.append(n)
                return n
            return leaf(allow_int)

        if t == "Not":
            counter["n"] += 1
            inner = node(depth + 1) if room else N("Any", a(), b())
            return N("Not", inner)
        if t == "Imply":
            return N("Imply", child(False), child(False), id=nid)
        k = rng.choice([1, 2, 2, 3, 3, 4])
        allow_int = t in ("AtLeast", "AtMost")
        chs, keys = [], set()
        for _ in range(k):
            ch = child(allow_int)
            key = _ckey(ch)
            if key in keys:
                continue
            keys.add(key)
            chs.append(ch)
        if t in ("Xor", "XNor") and len(chs) < 2:
            t = "Any"
        if t == "AtLeast":
            sign = rng.choice([1, 1, -1, None])
            value = rng.randint(-3, 4)
            if sign is None and value == 0:
                value = 1
            return AL(value, *chs, id=nid, sign=sign)
        if t == "AtMost":
            return AM(rng.randint(0, 3), *chs, id=nid)
        return N(t, *chs, id=nid)

    for _ in range(50):
        counter["n"] = 0
        counter["ids"] = iter("ABCDEFGHKLMN")
        shared.clear()
        s = node(1)
        if s["t"] == "Not":
            continue
        if _ok(s):
            return s
    return N("Any", a(), b(), id="A")


def _ckey(n):
    if n["t"] == "var":
        return ("v", n["id"])
    return (n["t"], n.get("id"), n.get("value"), n.get("sign"), tuple(_ckey(c) for c in n["ch"]))


def _ok(spec):
    """well-defined by construction: an explicit id names one definition; no node lists the same child twice"""
    defs = {}

    def go(n):
        if n["t"] == "var":
            return True
        if n.get("id"):
            k = _ckey(n)
            if defs.setdefault(n["id"], k) != k:
                return False
        ks = [_ckey(c) for c in n["ch"]]
        if len(set(ks)) != len(ks):
            return False
        return all(go(c) for c in n["ch"])
    return go(spec)


def pl_family(tier, seed, kind="general", n_quick=15, n_thorough=300, **opts):
    rng = random.Random(1000003 * seed + 17)
    out = list(curated(kind))
    n = n_quick if tier == "quick" else n_thorough
    for _ in range(n):
        out.append(random_skeleton(rng, max_nodes=(5 if tier == "quick" else rng.choice([3, 5, 7])), **opts))
    return out


def with_subclass_leaves(spec):
    """every leaf becomes an instance of a user-defined subclass of puan.variable"""
    s = copy.deepcopy(spec)

    def go(n):
        if n["t"] == "var":
            n["sub"] = True
            n.pop("str", None)
        for c in n.get("ch", []):
            go(c)
    go(s)
    return s
