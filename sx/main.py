import argparse
import os
import sys

VERIF = os.path.dirname(os.path.dirname(os.path.abspath(__file__)))
sys.path.insert(0, VERIF)
sys.setrecursionlimit(10000)


def main():
    ap = argparse.ArgumentParser()
    ap.add_argument("prop")
    ap.add_argument("--tier", default=os.environ.get("VERIF_TIER", "quick"), choices=["quick", "thorough"])
    ap.add_argument("--replay")
    ap.add_argument("--jobs", type=int, default=0)
    a = ap.parse_args()
    seed = int(os.environ.get("VERIF_SEED", "0") or 0)
    from sx import driver
    os.chdir(VERIF)
    if a.replay:
        sys.exit(driver.replay_file(a.prop.upper(), a.replay))
    sys.exit(driver.run_check(a.prop.upper(), a.tier, seed, a.jobs or None))


if __name__ == "__main__":
    main()
