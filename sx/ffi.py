"""M8: py_optimized_bit_allocation_64 called for real on a representative of the path.

The wrapper forces the path to decide sign, zero-ness and the complete weak order of the symbolic argument vector,
takes a model of the path as representative, calls the real function, and re-calls it on a second representative
with the same weak order and signs; the two answers must coincide (contract: output depends only on weak order and signs)."""
import numpy as _np

from . import core as S


class PrStub:
    def __init__(self, pr):
        self._pr = pr
        self.calls = 0

    def __getattr__(self, n):
        return getattr(self._pr, n)

    def py_optimized_bit_allocation_64(self, arr):
        ctx = S.cur()
        xs = list(_np.asarray(arr, dtype=object).reshape(-1))
        zs = [S.term(x) for x in xs]
        for z in zs:
            bool(S.SymBool(z > 0))
            bool(S.SymBool(z == 0))
        for i in range(len(zs)):
            for j in range(i + 1, len(zs)):
                bool(S.SymBool(zs[i] < zs[j]))
                bool(S.SymBool(zs[i] == zs[j]))
        ctx._ensure_model()
        m = ctx.model
        rep = [S.model_int(m, z) for z in zs]
        out = list(self._pr.py_optimized_bit_allocation_64(_np.array(rep, dtype=_np.int64)))
        # second representative: same signs and weak order, values renumbered densely (cannot overflow int64)
        negs = sorted(set(r for r in rep if r < 0))
        poss = sorted(set(r for r in rep if r > 0))
        rep2 = [(-(len(negs) - negs.index(r)) if r < 0 else (poss.index(r) + 1 if r > 0 else 0)) for r in rep]
        if rep2 == rep:
            rep2 = [2 * r for r in rep2]
        out2 = list(self._pr.py_optimized_bit_allocation_64(_np.array(rep2, dtype=_np.int64)))
        if [int(v) for v in out] != [int(v) for v in out2]:
            raise S.HarnessError("FFI order-invariance contract broken: %s -> %s but %s -> %s" % (rep, out, rep2, out2))
        self.calls += 1
        return _np.array([int(v) for v in out], dtype=object)


def install(pnd):
    if not isinstance(pnd.pr, PrStub):
        pnd.pr = PrStub(pnd.pr)
    return pnd.pr


def uninstall(pnd):
    if isinstance(pnd.pr, PrStub):
        pnd.pr = pnd.pr._pr
