"""SX core: proxy integers over z3 terms and a re-execution path explorer.

The repository's own functions are *executed* on SymInt/SymBool proxies.  The
only place a path forks is SymBool.__bool__ (and the few helpers that reduce to
it).  explore() re-runs the harness once per feasible path, following a
decision prefix and queueing the untaken feasible alternative of every new
decision.  Nothing here knows anything about puan.
"""
import math
import time
import z3

# --------------------------------------------------------------------------
# control-flow exceptions: BaseException so that `except Exception` in the
# code under test (maz.fnexcept, ge_polyhedron_config.select) cannot swallow them


class Abort(BaseException):
    """infeasible path / internal path termination"""


class Inconclusive(BaseException):
    """solver said unknown, or a cap was hit: never reported as success"""


class HarnessError(BaseException):
    """the harness / environment model is wrong (exit 3)"""


# --------------------------------------------------------------------------

HASH_MODE = "structural"      # or "decided"
SECOND_EVERY = int(__import__("os").environ.get("VERIF_CVC5_EVERY", "0") or 0)   # re-decide every Nth final query (and every sat) with cvc5
_second_counter = [0]


def cvc5_check(smt2, timeout_ms=30000):
    """verdict of cvc5 1.4 (python wheel) on an SMT-LIB2 text: 'sat' | 'unsat' | 'unknown'"""
    import cvc5
    slv = cvc5.Solver()
    slv.setOption("tlimit-per", str(timeout_ms))
    slv.setLogic("ALL")
    p = cvc5.InputParser(slv)
    p.setStringInput(cvc5.InputLanguage.SMT_LIB_2_6, smt2, "q")
    sm = p.getSymbolManager()
    res = "unknown"
    while True:
        cmd = p.nextCommand()
        if cmd.isNull():
            break
        out = str(cmd.invoke(slv, sm)).strip()
        if out in ("sat", "unsat", "unknown"):
            res = out
    return res
_TOKEN_BASE = 0x5EED000000


class Ctx:
    cur = None

    def __init__(self, prefix=(), timeout_ms=20000):
        self.solver = z3.Solver()
        self.solver.set("timeout", timeout_ms)
        self.prefix = list(prefix)
        self.trace = []          # (branch, forced)
        self.pc = []             # z3 literals decided on this path
        self.base = []           # assumptions (input ranges, preconditions)
        self.nchecks = 0
        self.solver_s = 0.0
        self.model = None        # a model of base ∧ pc (lazy)
        self.fixed = {}          # z3 const id -> python int, learnt from decided equalities
        self.hash_tokens = []
        self.decided_lits = {}   # z3 ast id -> (decision, literal kept alive)
        del _PICKLE_REG[:]
        self.str_calls = 0
        self.nonlinear = 0
        self.syms = {}           # name -> SymInt
        self.notes = []
        self.second_n = 0
        self.second_agree = 0

    # ---- inputs -----------------------------------------------------------
    def int(self, name, lo=None, hi=None):
        if name in self.syms:
            return self.syms[name]
        v = z3.Int(name)
        if lo is not None:
            self.assume(v >= lo)
        if hi is not None:
            self.assume(v <= hi)
        s = SymInt(v)
        self.syms[name] = s
        return s

    def bool(self, name):
        if name in self.syms:
            return self.syms[name]
        s = SymBool(z3.Bool(name))
        self.syms[name] = s
        return s

    def preregister(self, ints):
        for k in sorted(set(int(i) for i in ints)):
            self.hash_tokens.append((z3.IntVal(k), hash(k)))

    def assume(self, e):
        if isinstance(e, SymBool):
            e = e.e
        self.base.append(e)
        self.solver.add(e)
        self.model = None

    # ---- solver helpers ---------------------------------------------------
    def _check(self, *extra):
        t0 = time.time()
        self.nchecks += 1
        r = self.solver.check(*extra)
        self.solver_s += time.time() - t0
        return str(r)

    def _ensure_model(self):
        if self.model is None:
            r = self._check()
            if r == "unsat":
                raise Abort("infeasible")
            if r != "sat":
                raise Inconclusive("unknown on path feasibility")
            self.model = self.solver.model()

    def _learn(self, lit):
        # record x == k facts so that sym*sym products stay linear where the code forced a value
        try:
            if z3.is_eq(lit):
                a, b = lit.arg(0), lit.arg(1)
                if z3.is_int_value(b) and z3.is_const(a) and not z3.is_int_value(a):
                    self.fixed[a.get_id()] = b.as_long()
                elif z3.is_int_value(a) and z3.is_const(b) and not z3.is_int_value(b):
                    self.fixed[b.get_id()] = a.as_long()
        except z3.Z3Exception:
            pass

    def decide(self, e):
        e = z3.simplify(e)
        if z3.is_true(e):
            return True
        if z3.is_false(e):
            return False
        # a literal already decided on this path keeps its decision (no new trace entry: re-executions see the same sequence of fresh literals)
        hit = self.decided_lits.get(e.get_id())
        if hit is not None:
            return hit[0]
        if z3.is_not(e):
            hit = self.decided_lits.get(e.arg(0).get_id())
            if hit is not None:
                return not hit[0]
        b = self._decide_fresh(e)
        self.decided_lits[e.get_id()] = (b, e)
        return b

    def _decide_fresh(self, e):
        i = len(self.trace)
        if i < len(self.prefix):
            b = self.prefix[i]
            self.trace.append((b, True))
            lit = e if b else z3.Not(e)
            self.pc.append(lit)
            self.solver.add(lit)
            self.model = None
            if b:
                self._learn(e)
            return b
        self._ensure_model()
        mv = self.model.eval(e, model_completion=True)
        if z3.is_true(mv):
            b = True
        elif z3.is_false(mv):
            b = False
        else:
            # model could not evaluate (should not happen with completion): decide by solver
            r = self._check(e)
            if r == "unknown":
                raise Inconclusive("unknown in decide")
            b = (r == "sat")
            self.model = None
        other = z3.Not(e) if b else e
        r = self._check(other)
        if r == "unknown":
            raise Inconclusive("unknown in decide")
        forced = (r != "sat")
        self.trace.append((b, forced))
        lit = e if b else z3.Not(e)
        self.pc.append(lit)
        self.solver.add(lit)
        if self.model is None:
            self._ensure_model()
        if b:
            self._learn(e)
        return b

    def query(self, viol):
        """Is base ∧ pc ∧ viol satisfiable?  Returns ('unsat'|'sat'|'unknown', model|None)."""
        if isinstance(viol, SymBool):
            viol = viol.e
        if isinstance(viol, bool):
            viol = z3.BoolVal(viol)
        self.solver.push()
        try:
            self.solver.add(viol)
            r = self._check()
            m = self.solver.model() if r == "sat" else None
            if SECOND_EVERY and r in ("sat", "unsat"):
                _second_counter[0] += 1
                if r == "sat" or _second_counter[0] % SECOND_EVERY == 0:
                    try:
                        r2 = cvc5_check(self.solver.to_smt2())
                    except Exception as e:    # noqa
                        r2 = "error:%s" % type(e).__name__
                    self.second_n += 1
                    if r2 == r:
                        self.second_agree += 1
                    elif r2 in ("sat", "unsat"):
                        raise Inconclusive("solver disagreement: z3 %s, cvc5 %s" % (r, r2))
        finally:
            self.solver.pop()
        return r, m


# M11: pickle carries a symbolic integer as an opaque token (the model assumes pickle transports a Python int unchanged); the rest of
# pickle/gzip/base64 runs for real on the object graph.  copy.deepcopy of a proxy returns the (immutable) proxy itself.
_PICKLE_REG = []


def _unpickle_proxy(k):
    return _PICKLE_REG[k]


def _reduce_proxy(self):
    _PICKLE_REG.append(self)
    return (_unpickle_proxy, (len(_PICKLE_REG) - 1,))


def cur():
    c = Ctx.cur
    if c is None:
        raise HarnessError("symbolic decision outside an exploration")
    return c


# --------------------------------------------------------------------------
# proxies

def _np_scalar(x):
    try:
        import numpy
    except ImportError:      # pragma: no cover
        return None
    if isinstance(x, numpy.bool_):
        return int(x)
    if isinstance(x, numpy.integer):
        return int(x)
    if isinstance(x, numpy.floating) and x == x and abs(x) != float("inf") and float(x) == int(x):
        return int(x)
    return None


def _z(x):
    """python/numpy/proxy value -> z3 Int term, or None when x is not integral."""
    if isinstance(x, SymInt):
        return x.e
    if isinstance(x, SymBool):
        return z3.If(x.e, z3.IntVal(1), z3.IntVal(0))
    if isinstance(x, bool):
        return z3.IntVal(int(x))
    if isinstance(x, int):
        return z3.IntVal(x)
    if isinstance(x, float):
        if x == x and abs(x) != float("inf") and x == int(x):
            return z3.IntVal(int(x))
        return None
    k = _np_scalar(x)
    if k is not None:
        return z3.IntVal(k)
    return None


def _b(o):
    if isinstance(o, SymBool):
        return o.e
    if isinstance(o, SymInt):
        return o.e != 0
    return z3.BoolVal(bool(o))


class SymBool:
    __slots__ = ("e",)
    __reduce__ = _reduce_proxy

    def __init__(self, e):
        self.e = e

    def __bool__(self):
        return cur().decide(self.e)

    def __and__(self, o):
        return SymBool(z3.And(self.e, _b(o)))
    __rand__ = __and__

    def __or__(self, o):
        return SymBool(z3.Or(self.e, _b(o)))
    __ror__ = __or__

    def __xor__(self, o):
        return SymBool(z3.Xor(self.e, _b(o)))
    __rxor__ = __xor__

    def __invert__(self):
        return SymBool(z3.Not(self.e))

    def _i(self):
        return SymInt(_z(self))

    def __mul__(self, o):
        return self._i() * o
    __rmul__ = __mul__

    def __add__(self, o):
        return self._i() + o
    __radd__ = __add__

    def __sub__(self, o):
        return self._i() - o

    def __rsub__(self, o):
        return o - self._i()

    def __neg__(self):
        return -self._i()

    def __eq__(self, o):
        if isinstance(o, SymBool):
            return SymBool(self.e == o.e)
        return self._i() == o

    def __ne__(self, o):
        if isinstance(o, SymBool):
            return SymBool(self.e != o.e)
        return self._i() != o

    def __lt__(self, o): return self._i() < o
    def __le__(self, o): return self._i() <= o
    def __gt__(self, o): return self._i() > o
    def __ge__(self, o): return self._i() >= o

    def __index__(self):
        return 1 if bool(self) else 0

    def __hash__(self):
        return hash(bool(self))

    def __repr__(self):
        return "SymBool(%s)" % z3.simplify(self.e)


class SymInt:
    __slots__ = ("e",)
    __reduce__ = _reduce_proxy

    def __init__(self, e):
        self.e = e

    # ---- arithmetic
    def _bin(self, o, f):
        z = _z(o)
        if z is None:
            return NotImplemented
        return SymInt(f(self.e, z))

    def __add__(self, o): return self._bin(o, lambda a, b: a + b)
    __radd__ = __add__
    def __sub__(self, o): return self._bin(o, lambda a, b: a - b)
    def __rsub__(self, o): return self._bin(o, lambda a, b: b - a)

    def __mul__(self, o):
        z = _z(o)
        if z is None:
            return NotImplemented
        a = z3.simplify(self.e)
        b = z3.simplify(z)
        if not z3.is_int_value(a) and not z3.is_int_value(b):
            c = Ctx.cur
            if c is not None:
                if z3.is_const(a) and a.get_id() in c.fixed:
                    a = z3.IntVal(c.fixed[a.get_id()])
                elif z3.is_const(b) and b.get_id() in c.fixed:
                    b = z3.IntVal(c.fixed[b.get_id()])
                else:
                    c.nonlinear += 1
        return SymInt(a * b)
    __rmul__ = __mul__

    def __neg__(self): return SymInt(-self.e)
    def __pos__(self): return self
    def __abs__(self): return SymInt(z3.If(self.e >= 0, self.e, -self.e))

    def __floordiv__(self, o):
        z = _z(o)
        if z is None:
            return NotImplemented
        z = z3.simplify(z)
        if not z3.is_int_value(z):
            raise HarnessError("symbolic divisor")
        k = z.as_long()
        if k == 0:
            raise ZeroDivisionError("integer division or modulo by zero")
        return SymInt(self.e / k) if k > 0 else SymInt((-self.e) / (-k))

    def __truediv__(self, o):
        if isinstance(o, SymInt):
            oz = z3.simplify(o.e)
            if not z3.is_int_value(oz):
                raise HarnessError("symbolic divisor")
            o = oz.as_long()
        else:
            k = _z(o)
            if k is None:
                return NotImplemented
            o = z3.simplify(k).as_long()
        if o == 0:
            return SymDivZero(self.e)
        return SymQ(self.e, int(o))

    def __rtruediv__(self, o):
        # numeric / proxy: only for a proxy that is a numeral (a concrete coefficient wrapped to keep arrays homogeneous)
        k = z3.simplify(self.e)
        if not z3.is_int_value(k):
            raise HarnessError("symbolic divisor")
        num = _z(o)
        if num is None:
            raise HarnessError("non-integral numerator")
        if k.as_long() == 0:
            return SymDivZero(num)
        return SymQ(num, k.as_long())

    # ---- comparisons
    def _cmp(self, o, f):
        z = _z(o)
        if z is None:
            if isinstance(o, float):
                if o != o:
                    return False
                # ±inf comparisons
                big = o > 0
                return {"lt": big, "le": big, "gt": not big, "ge": not big}[f.__name__]
            return NotImplemented
        return SymBool(f(self.e, z))

    def __lt__(self, o):
        def lt(a, b): return a < b
        return self._cmp(o, lt)

    def __le__(self, o):
        def le(a, b): return a <= b
        return self._cmp(o, le)

    def __gt__(self, o):
        def gt(a, b): return a > b
        return self._cmp(o, gt)

    def __ge__(self, o):
        def ge(a, b): return a >= b
        return self._cmp(o, ge)

    def __eq__(self, o):
        z = _z(o)
        if z is None:
            return False
        return SymBool(self.e == z)

    def __ne__(self, o):
        z = _z(o)
        if z is None:
            return True
        return SymBool(self.e != z)

    def __bool__(self):
        return cur().decide(self.e != 0)

    def __floor__(self): return self
    def __ceil__(self): return self
    def __trunc__(self): return self
    def __round__(self, n=None): return self

    def __hash__(self):
        s = z3.simplify(self.e)
        if HASH_MODE == "structural":
            if z3.is_int_value(s):
                return hash(s.as_long())
            return _TOKEN_BASE + s.hash()
        return decided_token(s)

    def __str__(self):
        c = Ctx.cur
        if c is not None:
            c.str_calls += 1
        return "SymInt(%s)" % z3.simplify(self.e)

    def __repr__(self):
        return "SymInt(%s)" % z3.simplify(self.e)

    def __format__(self, spec):
        return repr(self)


def decided_token(s):
    """M5 decided mode: the hash token of an integer term.  Numerals get their real hash; a symbolic term gets the token
    of the first earlier term the path decides it equal to (fork), else a fresh one.  Pre-register (Ctx.preregister) every
    plain python int that can be hashed at C level so that a proxy equal to it hashes like it."""
    c = cur()
    if z3.is_int_value(s):
        k = s.as_long()
        for (e, tok) in c.hash_tokens:
            if z3.is_int_value(e) and e.as_long() == k:
                return tok
        for (e, tok) in c.hash_tokens:
            if not z3.is_int_value(e) and c.decide(e == s):
                return tok
        c.hash_tokens.append((s, hash(k)))
        return hash(k)
    for (e, tok) in c.hash_tokens:
        if e.eq(s) or c.decide(e == s):
            return tok
    tok = _TOKEN_BASE + (len(c.hash_tokens) + 1) * 7919
    c.hash_tokens.append((s, tok))
    return tok


class SymQ:
    """exact rational num/den with a concrete non-zero denominator (numpy float quotient, M2)"""
    __slots__ = ("num", "den")

    def __init__(self, num, den):
        self.num, self.den = num, den

    def __neg__(self):
        return SymQ(-self.num, self.den)

    def __mul__(self, o):
        if isinstance(o, SymQ):
            return SymQ(self.num * o.num, self.den * o.den)
        z = _z(o)
        if z is None:
            return NotImplemented
        return SymQ(self.num * z, self.den)
    __rmul__ = __mul__

    def __floor__(self):
        n, d = (self.num, self.den) if self.den > 0 else (-self.num, -self.den)
        return SymInt(n / d)      # z3 integer division with positive divisor == floor

    def __ceil__(self):
        n, d = (self.num, self.den) if self.den > 0 else (-self.num, -self.den)
        return SymInt(-((-n) / d))

    def __eq__(self, o):
        if isinstance(o, float) and math.isinf(o):
            return False
        return NotImplemented

    def __ne__(self, o):
        if isinstance(o, float) and math.isinf(o):
            return True
        return NotImplemented

    def __hash__(self):
        return 0

    def __repr__(self):
        return "SymQ(%s / %s)" % (z3.simplify(self.num), self.den)


class SymDivZero:
    """x / 0 under numpy float semantics: +inf if x>0, -inf if x<0, nan if x == 0"""
    __slots__ = ("num",)

    def __init__(self, num):
        self.num = num

    def __neg__(self):
        return SymDivZero(-self.num)

    def __floor__(self):
        return self

    def __ceil__(self):
        return self

    def __eq__(self, o):
        if isinstance(o, float) and math.isinf(o):
            return SymBool(self.num > 0) if o > 0 else SymBool(self.num < 0)
        return False

    def __ne__(self, o):
        r = self.__eq__(o)
        return ~r if isinstance(r, SymBool) else (not r)

    # ordering against finite values: +inf above, -inf below, nan unordered (always False)
    def __gt__(self, o): return SymBool(self.num > 0)
    def __ge__(self, o): return SymBool(self.num > 0)
    def __lt__(self, o): return SymBool(self.num < 0)
    def __le__(self, o): return SymBool(self.num < 0)

    def is_nan(self):
        return SymBool(self.num == 0)

    def __hash__(self):
        return 0

    def __repr__(self):
        return "SymDivZero(%s)" % z3.simplify(self.num)


def is_sym(x):
    return isinstance(x, (SymInt, SymBool, SymQ, SymDivZero))


def K(k):
    """a concrete integer wrapped as a proxy (keeps object arrays homogeneous)"""
    return SymInt(z3.IntVal(int(k)))


def term(x):
    """z3 Int term of a proxy / python / numpy integral value (HarnessError if not integral)"""
    z = _z(x)
    if z is None:
        raise HarnessError("not an integral value: %r" % (x,))
    return z


def concrete(x):
    """python int if x is (or simplifies to) a numeral, else None"""
    z = _z(x)
    if z is None:
        return None
    z = z3.simplify(z)
    return z.as_long() if z3.is_int_value(z) else None


# --------------------------------------------------------------------------
# explorer

class PathResult:
    __slots__ = ("pc", "base", "result", "ctx", "decisions")

    def __init__(self, ctx, result):
        self.ctx = ctx
        self.pc = list(ctx.pc)
        self.base = list(ctx.base)
        self.result = result
        self.decisions = len(ctx.trace)


class Stats:
    def __init__(self):
        self.paths = 0
        self.infeasible = 0
        self.decisions = 0
        self.checks = 0
        self.solver_s = 0.0
        self.nonlinear = 0
        self.wall_s = 0.0
        self.second_n = 0
        self.second_agree = 0

    def as_dict(self):
        return dict(second_solver_checks=self.second_n, second_solver_agreements=self.second_agree, paths=self.paths, infeasible=self.infeasible, decisions=self.decisions,
                    feasibility_checks=self.checks, solver_s=round(self.solver_s, 3),
                    nonlinear_products=self.nonlinear, wall_s=round(self.wall_s, 3))


PATH_RESET = None     # set by env.load_repo: restores the repository's process-wide state to its import-time content (M12)


def explore(fn, on_path=None, max_paths=20000, wall=None, timeout_ms=20000):
    """Run fn(ctx) once per feasible path.

    fn builds its symbolic inputs through ctx (ctx.int / ctx.assume) *before*
    calling the code under test, runs it, and returns anything.  on_path(ctx,
    result) is called while the path's solver is still alive (so it can issue
    ctx.query).  Returns Stats.  Raises Inconclusive on caps / unknown.
    """
    work = [[]]
    st = Stats()
    t0 = time.time()
    while work:
        if wall is not None and time.time() - t0 > wall:
            raise Inconclusive("wall cap after %d paths (queue %d)" % (st.paths, len(work)))
        prefix = work.pop()
        ctx = Ctx(prefix, timeout_ms)
        Ctx.cur = ctx
        if PATH_RESET is not None:
            PATH_RESET()
        try:
            try:
                res = fn(ctx)
            except Abort:
                st.infeasible += 1
                continue
            st.paths += 1
            if st.paths > max_paths:
                raise Inconclusive("path cap %d" % max_paths)
            for i in range(len(prefix), len(ctx.trace)):
                b, forced = ctx.trace[i]
                if not forced:
                    work.append([x for x, _ in ctx.trace[:i]] + [not b])
            if on_path is not None:
                on_path(ctx, res)
        finally:
            st.decisions += len(ctx.trace)
            st.checks += ctx.nchecks
            st.solver_s += ctx.solver_s
            st.nonlinear += ctx.nonlinear
            st.second_n += ctx.second_n
            st.second_agree += ctx.second_agree
            Ctx.cur = None
    st.wall_s = time.time() - t0
    return st


def model_int(m, x):
    """value of x (proxy / term / int) in z3 model m, as python int"""
    z = x if isinstance(x, z3.ExprRef) else _z(x)
    v = m.eval(z, model_completion=True)
    if z3.is_int_value(v):
        return v.as_long()
    if z3.is_true(v):
        return 1
    if z3.is_false(v):
        return 0
    raise HarnessError("model value not integral: %s" % v)
