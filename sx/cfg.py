"""CFG family: configurator specs (StingyConfigurator over plog rules and defaulted cc.Any / cc.Xor). No z3 here."""
import copy
import random

from .families import V, N, AL, AM


def cAny(*ch, id=None, default=None):
    return {"t": "cAny", "id": id, "ch": list(ch), "default": default}


def cXor(*ch, id=None, default=None):
    return {"t": "cXor", "id": id, "ch": list(ch), "default": default}


def SC(*rules, id="cfg"):
    return {"t": "SC", "id": id, "ch": list(rules)}


def curated():
    a, b, c, d, e, f = [lambda n=n: V(n) for n in "abcdef"]
    x, y, z = [lambda n=n: V(n) for n in "xyz"]
    L = [
        SC(cXor(x(), y(), z(), id="X", default=["z"])),
        SC(cAny(a(), b(), c(), id="A", default=["a"])),
        SC(cAny(a(), b(), id="A")),
        SC(N("Imply", N("All", a(), b(), id="C"), cXor(x(), y(), z(), id="X", default=["z"]), id="R")),
        SC(cXor(x(), y(), id="X", default=["x"]), cAny(a(), b(), c(), id="A", default=["b"])),
        SC(N("Any", a(), b(), id="A"), AM(1, c(), d(), id="M")),
        SC(N("All", a(), id="A"), cXor(x(), y(), z(), id="X", default=["y"])),
        SC(N("Imply", a(), cAny(x(), y(), id="Y", default=["x"]), id="R"), N("Imply", b(), cXor(c(), d(), id="Z", default=["c"]), id="S")),
        SC(N("Xor", a(), b(), id="P"), N("Imply", a(), N("All", c(), d(), id="Q"), id="R")),
        SC(cAny(a(), b(), c(), d(), id="A", default=["c"]), AM(2, a(), b(), c(), d(), id="M")),
        SC(N("Imply", N("Any", a(), b(), id="C"), cAny(c(), d(), e(), id="D", default=["e"]), id="R"), AM(1, a(), c(), id="M")),
        SC(cXor(a(), b(), c(), id="X", default=["a"]), N("Imply", a(), N("Any", d(), e(), id="Q"), id="R")),
        SC(cAny(a(), b(), id="A", default=["a"]), AM(3, d(), e(), f(), id="M")),
        # compound alternatives, also referenced by another rule (shared sub-proposition)
        SC(cAny(V("std"), N("All", x(), V("w"), id="sport"), id="seat", default=["std"]), N("Any", N("All", x(), V("w"), id="sport"), N("All", V("p"), V("q"), id="comfort"), id="pack")),
        SC(cXor(a(), N("Any", b(), c(), id="G"), id="X", default=["a"])),
        SC(cAny(a(), N("All", b(), c(), id="G"), d(), id="A", default=["a"]), N("Imply", e(), N("All", b(), c(), id="G"), id="R")),
        # a defaulted rule nested inside rules that carry no default themselves
        SC(cAny(cXor(x(), y(), z(), id="X", default=["z"]), V("w"), id="A")),
        SC(N("Any", cXor(x(), y(), id="X", default=["x"]), N("All", a(), b(), id="B"), id="A"), N("Imply", c(), cAny(d(), e(), id="D", default=["e"]), id="R")),
        SC(N("All", N("Any", cAny(a(), b(), c(), id="K", default=["b"]), d(), id="B"), id="A")),
        # a rule directly inside a rule of the same class, inner id generated (the inner rule has a support variable of its own)
        SC(N("All", N("All", a(), b()), c(), id="R"), cXor(x(), y(), id="X", default=["x"])),
        SC(N("Any", N("Any", a(), b()), N("All", c(), d()), id="R"), cAny(e(), f(), id="E", default=["f"])),
        # default lists with several entries, not in id order (the first entry is the effective default)
        SC(cAny(a(), b(), c(), id="A", default=["c", "a"])),
        SC(N("Imply", a(), cXor(x(), y(), z(), id="X", default=["z", "x"]), id="R"), cAny(b(), c(), id="B", default=["c", "b"])),
    ]
    return L


def random_cfg(rng, max_rules=3):
    pool = list("abcdef")
    import itertools
    ids = itertools.chain("ABCDEFGHKLMN", ("R%d" % i for i in itertools.count()))     # never runs out (nested implications draw several ids)
    rules = []

    def leaves(k):
        return [V(n) for n in rng.sample(pool, k)]

    def rule():
        t = rng.choice(["cAny", "cXor", "Imply", "AtMost", "Any", "All", "Xor", "cAny", "cXor"])
        nid = next(ids)
        if t in ("cAny", "cXor"):
            ch = leaves(rng.choice([2, 3, 3, 4]))
            dflt = [rng.choice(ch)["id"]] if rng.random() < 0.8 else None
            return (cAny if t == "cAny" else cXor)(*ch, id=nid, default=dflt)
        if t == "Imply":
            cond = rng.choice([lambda: leaves(1)[0], lambda: N("All", *leaves(2), id=next(ids)), lambda: N("Any", *leaves(2), id=next(ids))])()
            cons = rule() if rng.random() < 0.6 else N("All", *leaves(2), id=next(ids))
            if cons["t"] == "Imply":
                cons = N("Any", *leaves(2), id=next(ids))
            return N("Imply", cond, cons, id=nid)
        if t == "AtMost":
            return AM(rng.choice([1, 2]), *leaves(rng.choice([2, 3])), id=nid)
        return N(t, *leaves(rng.choice([2, 3])), id=nid)

    for _ in range(rng.randint(1, max_rules)):
        rules.append(rule())
    return SC(*rules)


def cfg_family(tier, seed, n_quick=6, n_thorough=150):
    rng = random.Random(seed * 1009 + 77)
    out = curated()
    for _ in range(n_quick if tier == "quick" else n_thorough):
        out.append(random_cfg(rng))
    return out


def items(spec, acc=None):
    """leaf ids of a configurator spec, in order of first appearance"""
    acc = [] if acc is None else acc
    if spec["t"] == "var":
        if spec["id"] not in acc:
            acc.append(spec["id"])
    for c in spec.get("ch", []):
        items(c, acc)
    return acc


def defaulted(spec, acc=None):
    """list of (node spec, default id, complement ids) for defaulted cAny/cXor nodes where the split applies"""
    acc = [] if acc is None else acc
    if spec["t"] in ("cAny", "cXor") and spec.get("default"):
        d = spec["default"][0]
        ch_ids = [c["id"] for c in spec["ch"]]
        if any(i is None for i in ch_ids):
            raise ValueError("alternatives of a defaulted Any/Xor need explicit ids in the CFG family")
        comp = [i for i in ch_ids if i != d]
        if len(ch_ids) > 1 and d in ch_ids and comp:
            acc.append((spec, d, comp))
    for c in spec.get("ch", []):
        defaulted(c, acc)
    return acc
