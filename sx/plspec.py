"""PL family: JSON-able model *specs*, a builder that turns a spec into the repository's
objects (through the public constructors), and reference semantics written here,
independently of puan.logic.plog.

spec node:
  {"t":"var","id":"a","lo":0,"hi":1[,"str":true]}          lo/hi: int or "$param"
  {"t":"AtLeast","id":"A"|None,"value":int|"$p","sign":1|-1|None|"$p","ch":[...]}
  {"t":"AtMost","id":..,"value":int|"$p","ch":[...]}
  {"t":"All"|"Any"|"Xor"|"ExactlyOne"|"XNor","id":..,"ch":[...]}
  {"t":"Imply","id":..,"ch":[condition, consequence]}
  {"t":"Not","ch":[x]}
  optional on compounds: "vb": [lo,hi]  -> explicit puan.variable(id, bounds) as `variable`
"""


def P(env, x):
    """parameter lookup: "$name" -> env[name]; ints pass through"""
    if isinstance(x, str) and x.startswith("$"):
        return env[x[1:]]
    return x


def params(spec, acc=None):
    acc = set() if acc is None else acc
    for k in ("lo", "hi", "value", "sign"):
        v = spec.get(k)
        if isinstance(v, str) and v.startswith("$"):
            acc.add(v[1:])
    for c in spec.get("ch", []):
        params(c, acc)
    return acc


def leaves(spec, acc=None):
    """ordered dict id -> (lo, hi) spec of every leaf"""
    acc = {} if acc is None else acc
    if spec["t"] == "var":
        acc.setdefault(spec["id"], (spec.get("lo", 0), spec.get("hi", 1)))
    for c in spec.get("ch", []):
        leaves(c, acc)
    return acc


def compounds(spec, acc=None):
    acc = [] if acc is None else acc
    if spec["t"] != "var":
        acc.append(spec)
        for c in spec["ch"]:
            compounds(c, acc)
    return acc


def explicit_ids(spec):
    return [c["id"] for c in compounds(spec) if c.get("id")]


# --------------------------------------------------------------------------
# builder (public constructors only)

_ITEM = {}


def _item_class(puan):
    """a user-defined subclass of puan.variable (the repository's tests use such leaves: `class Fruit(puan.variable)`)"""
    if puan not in _ITEM:
        class Item(puan.variable):
            pass
        # reachable as a module attribute, as a user's class would be (pickle looks classes up by module and qualified name)
        Item.__qualname__ = "Item"
        Item.__module__ = __name__
        globals()["Item"] = Item
        _ITEM[puan] = Item
    return _ITEM[puan]


def build(ns, spec, env, cache=None):
    puan, pg = ns.puan, ns.pg
    cache = {} if cache is None else cache
    t = spec["t"]
    if t == "var":
        if spec.get("str"):
            return spec["id"]
        key = ("var", spec["id"], spec.get("occ", 0))
        if key not in cache:
            cls = _item_class(puan) if spec.get("sub") else puan.variable
            cache[key] = cls(spec["id"], bounds=(P(env, spec.get("lo", 0)), P(env, spec.get("hi", 1))))
        return cache[key]
    ch = [build(ns, c, env, cache) for c in spec["ch"]]
    var = spec.get("id")
    if var is not None and spec.get("vb") is not None:
        var = puan.variable(var, bounds=tuple(spec["vb"]))
    if t == "AtLeast":
        sign = P(env, spec.get("sign"))
        return pg.AtLeast(P(env, spec["value"]), ch, variable=var, sign=sign)
    if t == "AtMost":
        return pg.AtMost(P(env, spec["value"]), ch, variable=var)
    if t == "All":
        return pg.All(*ch, variable=var)
    if t == "Any":
        return pg.Any(*ch, variable=var)
    if t == "Xor":
        return pg.Xor(*ch, variable=var)
    if t == "ExactlyOne":
        return pg.ExactlyOne(*ch, variable=var)
    if t == "XNor":
        return pg.XNor(*ch, variable=var)
    if t == "Imply":
        return pg.Imply(ch[0], ch[1], variable=var)
    if t == "Not":
        return pg.Not(ch[0])
    if t in ("cAny", "cXor"):
        cls = ns.cc.Any if t == "cAny" else ns.cc.Xor
        dflt = spec.get("default")
        return cls(*ch, default=list(dflt) if dflt else None, variable=var)
    if t == "SC":
        return ns.cc.StingyConfigurator(*ch, id=var)
    raise ValueError("unknown spec type %r" % t)


def to_json_spec(spec, env):
    """the JSON dictionary a user would write for this spec (plog.from_json input); concrete params only"""
    t = spec["t"]
    if t == "var":
        d = {"id": spec["id"]}
        lo, hi = P(env, spec.get("lo", 0)), P(env, spec.get("hi", 1))
        if (lo, hi) != (0, 1):
            d["bounds"] = {"lower": lo, "upper": hi}
        return d
    d = {"type": t}
    if spec.get("id"):
        d["id"] = spec["id"]
    if t == "Imply":
        d["condition"] = to_json_spec(spec["ch"][0], env)
        d["consequence"] = to_json_spec(spec["ch"][1], env)
        return d
    if t == "Not":
        d["proposition"] = to_json_spec(spec["ch"][0], env)
        return d
    d["propositions"] = [to_json_spec(c, env) for c in spec["ch"]]
    if t in ("AtLeast", "AtMost"):
        d["value"] = P(env, spec["value"])
    if t == "AtLeast" and spec.get("sign") is not None:
        d["sign"] = P(env, spec["sign"])
    return d


def show(spec):
    t = spec["t"]
    if t == "var":
        b = "" if (spec.get("lo", 0), spec.get("hi", 1)) == (0, 1) else "[%s,%s]" % (spec.get("lo", 0), spec.get("hi", 1))
        return spec["id"] + b
    head = t
    if t == "AtLeast":
        head = "AtLeast(%s,s=%s)" % (spec["value"], spec.get("sign"))
    if t == "AtMost":
        head = "AtMost(%s)" % (spec["value"],)
    if spec.get("id"):
        head = spec["id"] + ":" + head
    return head + "[" + ",".join(show(c) for c in spec["ch"]) + "]"


def plain_sem(spec, env, vals):
    """textbook semantics on python ints (used by the replay side; independent of the z3 oracle)"""
    t = spec["t"]
    if t == "var":
        return vals[spec["id"]]
    ch = [plain_sem(c, env, vals) for c in spec["ch"]]
    if t == "AtLeast":
        v = P(env, spec["value"])
        s = P(env, spec.get("sign"))
        if s is None:
            s = 1 if v > 0 else -1
        return int(s * sum(ch) >= v)
    if t == "AtMost":
        return int(sum(ch) <= P(env, spec["value"]))
    if t in ("All", "SC"):
        return int(all(c >= 1 for c in ch))
    if t in ("Any", "cAny"):
        return int(any(c >= 1 for c in ch))
    if t in ("Xor", "ExactlyOne", "cXor"):
        return int(sum(ch) == 1)
    if t == "XNor":
        return int(sum(ch) != 1)
    if t == "Imply":
        return int(ch[0] < 1 or ch[1] >= 1)
    if t == "Not":
        return int(ch[0] < 1)
    raise ValueError("unknown spec type %r" % t)
