"""shared pieces of the plog harnesses: symbolic parameter environments, leaf values, concretisation"""
import z3

from . import core as S
from . import pl

VB = 2 ** 20        # |threshold| bound
LO16, HI16 = -32768, 32767


def sym_env(ctx, spec, vbound=VB, validated=True):
    env = {}
    for p in sorted(pl.params(spec)):
        kind = p.split("_")[0]
        if kind == "v":
            env[p] = ctx.int(p, -vbound, vbound)
        elif kind == "s":
            s = ctx.int(p, -1, 1)
            ctx.assume(s.e != 0)
            env[p] = s
        elif kind in ("lo", "hi"):
            env[p] = ctx.int(p, LO16, HI16)
        else:
            raise S.HarnessError("unknown parameter kind %r" % p)
    for lid, (lo, hi) in pl.leaves(spec).items():
        if isinstance(lo, str) or isinstance(hi, str):
            ctx.assume(S.term(pl.P(env, lo)) <= S.term(pl.P(env, hi)))
    # "validated model" is part of every property that uses this family, and validity can depend on a symbolic SIGN: a named compound that
    # occurs under two negation sites is negated identically for some signs of the nodes in between and differently for others (negation keeps
    # the explicit id, so the model then holds two definitions under one id and errors() rejects it).  Sign combinations for which the
    # repository's own errors() rejects the model are excluded from the symbolic environment.
    sp, bad = _invalid_sign_combos(spec) if validated else ([], [])
    for combo in bad:
        ctx.assume(z3.Not(z3.And([env[p].e == c for p, c in zip(sp, combo)])))
    return env


_SIGN_CACHE = {}


def _invalid_sign_combos(spec):
    import itertools
    import json
    key = json.dumps(spec, sort_keys=True, default=str)
    if key in _SIGN_CACHE:
        return _SIGN_CACHE[key]
    sp = sorted(p for p in pl.params(spec) if p.split("_")[0] == "s")
    bad = []
    if sp and len(sp) <= 5:
        from . import env as E
        ns = E.load_repo()
        base = mid_env(spec)
        for combo in itertools.product((1, -1), repeat=len(sp)):
            e = dict(base)
            e.update(zip(sp, combo))
            try:
                ok = pl.build(ns, spec, e).errors() == []
            except Exception:   # noqa  (a constructor problem is the calling check's business)
                ok = True
            if not ok:
                bad.append(combo)
        if len(bad) == 2 ** len(sp):
            bad = []          # never valid: the calling check skips the instantiation on its own representative
    _SIGN_CACHE[key] = (sp, bad)
    return sp, bad


def leaf_syms(ctx, spec, env, prefix="x_", inbox=True):
    vals = {}
    for lid, (lo, hi) in pl.leaves(spec).items():
        x = ctx.int(prefix + lid)
        if inbox:
            ctx.assume(z3.And(x.e >= S.term(pl.P(env, lo)), x.e <= S.term(pl.P(env, hi))))
        else:
            ctx.assume(z3.And(x.e >= -VB, x.e <= VB))
        vals[lid] = x
    return vals


def conc_env(m, env):
    return {k: S.model_int(m, v) for k, v in env.items()}


def conc_vals(m, vals):
    return {k: S.model_int(m, v) for k, v in vals.items()}


def form(ns, kind, lo, hi=None):
    hi = lo if hi is None else hi
    if kind == "int":
        return lo
    if kind == "tuple":
        return (lo, hi)
    if kind == "bounds":
        return ns.puan.Bounds(lo, hi)
    raise S.HarnessError(kind)


def walk(ns, node, acc=None):
    acc = {} if acc is None else acc
    lst = acc.setdefault(node.id, [])
    if not any(o is node for o in lst):
        lst.append(node)
    if not issubclass(node.__class__, ns.puan.variable):
        for c in node.propositions:
            walk(ns, c, acc)
    return acc


def mid_env(spec):
    """a concrete representative environment (for structural pre-checks such as errors()==[])"""
    env = {}
    for p in sorted(pl.params(spec)):
        kind = p.split("_")[0]
        env[p] = {"v": 1, "s": 1, "lo": -3, "hi": 4}[kind]
    return env


def extremes(env):
    """z3 Bool: some symbolic box bound sits on the edge of the default 16-bit range (used to bias a second validation sample)"""
    ext = [v.e == LO16 for k, v in env.items() if k.startswith("lo_")] + [v.e == HI16 for k, v in env.items() if k.startswith("hi_")]
    return z3.Or(ext) if ext else None


def warm(ns, m):
    """call-history prefix: side-effect-free queries issued on the object before the operation under test
    (results discarded); anything they cache or change on the object must not alter what follows"""
    for f in ("flatten", "errors", "to_text", "to_short", "_dependencies"):     # to_json forks on value/sign of every node: left to C09/C16
        try:
            getattr(m, f)()
        except Exception:   # noqa
            pass
    try:
        m.variables
    except Exception:   # noqa
        pass
