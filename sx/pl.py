"""z3 reference semantics for PL-family specs (see plspec.py for the spec language)."""
import z3

from . import core as S
from .plspec import P, params, leaves, compounds, explicit_ids, build, to_json_spec, show, plain_sem  # noqa: F401

# --------------------------------------------------------------------------
# reference semantics (z3 terms), independent of the implementation

def _sum(xs):
    xs = list(xs)
    if not xs:
        return z3.IntVal(0)
    r = xs[0]
    for x in xs[1:]:
        r = r + x
    return r


def _I(b):
    return z3.If(b, z3.IntVal(1), z3.IntVal(0))


def zt(x):
    return S.term(x)


def sem(spec, env, vals):
    """value of `spec` (0/1 for compounds, the leaf's value for leaves) as a z3 Int term.

    vals: leaf id -> z3 term.  Textbook semantics per connective; AtLeast/AtMost arithmetic.
    Specs never list the same child twice (that is a validation error)."""
    t = spec["t"]
    if t == "var":
        return vals[spec["id"]]
    ch = [sem(c, env, vals) for c in spec["ch"]]
    if t == "AtLeast":
        v = zt(P(env, spec["value"]))
        s = P(env, spec.get("sign"))
        tot = _sum(ch)
        if s is None:
            # documented default: positive coefficients when value > 0, negative otherwise
            return _I(z3.If(v > 0, tot >= v, -tot >= v))
        sc = S.concrete(s)
        if sc is not None:
            return _I((tot if sc == 1 else -tot) >= v)
        return _I(z3.If(zt(s) == 1, tot >= v, -tot >= v))
    if t == "AtMost":
        return _I(_sum(ch) <= zt(P(env, spec["value"])))
    if t in ("All", "SC"):
        return _I(z3.And([c >= 1 for c in ch])) if ch else z3.IntVal(1)
    if t in ("Any", "cAny"):
        return _I(z3.Or([c >= 1 for c in ch]))
    if t in ("Xor", "ExactlyOne", "cXor"):
        return _I(_sum(ch) == 1)
    if t == "XNor":
        return _I(_sum(ch) != 1)
    if t == "Imply":
        return _I(z3.Or(ch[0] < 1, ch[1] >= 1))
    if t == "Not":
        return _I(ch[0] < 1)
    raise S.HarnessError("unknown spec type %r" % t)


def _key(spec):
    if spec["t"] == "var":
        return ("var", spec["id"])
    if spec.get("id"):
        return ("id", spec["id"])
    return (spec["t"], spec.get("value"), spec.get("sign"), tuple(_key(c) for c in spec["ch"]))


def obj_sem(ns, node, vals, fixed=None, memo=None):
    """arithmetic truth function read off a *built object graph* (before any call on it):
    T(leaf)=vals[id]; T(node)=If(sign·ΣT(child) >= value,1,0); a node whose id is in `fixed`
    (id -> z3 term or None) or whose variable has constant bounds takes that constant."""
    puan = ns.puan
    memo = {} if memo is None else memo
    fixed = fixed or {}
    if id(node) in memo:
        return memo[id(node)]
    if issubclass(node.__class__, puan.variable):
        r = vals[node.id]
    else:
        ch = []
        seen = set()
        for c in node.propositions:
            ch.append(obj_sem(ns, c, vals, fixed, memo))
        sz = zt(node.sign)
        sc = S.concrete(node.sign)
        tot = _sum(ch)
        v = zt(node.value)
        if sc is not None:
            body = (tot if sc == 1 else -tot) >= v
        else:
            body = z3.If(sz == 1, tot >= v, -tot >= v)
        r = _I(body)
        lo, hi = node.variable.bounds.lower, node.variable.bounds.upper
        loz, hiz = zt(lo), zt(hi)
        r = z3.If(loz == hiz, loz, r)
    f = fixed.get(node.id)
    if f is not None:
        r = f(r) if callable(f) else f
    memo[id(node)] = r
    return r


def solver_safe(ns, node, neg_parent=False):
    """structural predicate on a built object: no compound sits under a negatively signed parent"""
    puan = ns.puan
    if issubclass(node.__class__, puan.variable):
        return True
    if neg_parent:
        return False
    s = S.concrete(node.sign)
    return all(solver_safe(ns, c, neg_parent=(s == -1)) for c in node.propositions)


