"""symbolic class predicates of the known findings (known_findings.json), shared by the checks that inherit them"""
import z3

from . import core as S


def negate_mixed(ns, node, negated=True):
    """z3 Bool: does negating `node` (negate()/Not/Imply condition) reach the defect site
    `AtLeast.negate` on a positively signed node with both atomic and compound children whose
    threshold is >= 2 (or whose atoms can be negative)?  Push-inwards recursion followed."""
    puan = ns.puan
    if issubclass(node.__class__, puan.variable):
        return z3.BoolVal(False)
    atoms = [c for c in node.propositions if issubclass(c.__class__, puan.variable)]
    comps = [c for c in node.propositions if not issubclass(c.__class__, puan.variable)]
    s = S.term(node.sign)
    v = S.term(node.value)
    pos = (s == 1)
    if not negated:
        # a node that is not itself negated: look for negation sites below is the caller's business
        return z3.BoolVal(False)
    here = z3.BoolVal(False)
    if atoms and comps:
        neg_atom = z3.Or([S.term(a.bounds.lower) < 0 for a in atoms])
        here = z3.And(pos, z3.Or(v >= 2, neg_atom))
    below = z3.Or([negate_mixed(ns, c, True) for c in comps]) if comps else z3.BoolVal(False)
    return z3.simplify(z3.Or(here, z3.And(pos, below)))


def spec_negation_sites(spec, negated=False, acc=None):
    """spec-level: list of spec nodes that get negated when the model is *constructed*
    (Not argument, Imply condition).  XNor negates its helper AtLeast(1, arguments) node, and that negation is pushed
    inwards into every compound argument, so each compound argument of an XNor is a negation site as well."""
    acc = [] if acc is None else acc
    t = spec["t"]
    if t == "var":
        return acc
    if t == "Not":
        acc.append(spec["ch"][0])
    if t == "Imply":
        acc.append(spec["ch"][0])
    if t == "XNor":
        acc.extend(c for c in spec["ch"] if c["t"] != "var")
    for c in spec["ch"]:
        spec_negation_sites(c, False, acc)
    return acc
