#!/bin/sh
# Idempotent, offline: overlay venv of /venv (the repository's interpreter + deps)
# with z3-solver, cvc5 and jsonschema from the local wheelhouse.
# /verif/.venv is not a committed file; every registered command calls this first.
set -e
V="$(cd "$(dirname "$0")/.." && pwd)/.venv"
WH=/opt/veriftools/wheels
STAMP="$V/.ok-v1"
if [ ! -f "$STAMP" ]; then
  (
    flock 9
    if [ ! -f "$STAMP" ]; then
      rm -rf "$V"
      /venv/bin/python -m venv "$V" >/dev/null
      SP=$("$V/bin/python" -c "import sysconfig; print(sysconfig.get_paths()['purelib'])")
      echo "import site; site.addsitedir('/venv/lib/python3.12/site-packages')" > "$SP/zz_base_venv.pth"
      PIP_NO_INDEX=1 "$V/bin/python" -m pip install -q --no-index --find-links "$WH" z3-solver cvc5 jsonschema >/dev/null 2>&1 \
        || PIP_NO_INDEX=1 "$V/bin/python" -m pip install --no-index --find-links "$WH" z3-solver cvc5 jsonschema
      "$V/bin/python" -c "import z3, numpy, maz, puan_rspy; import cvc5"
      touch "$STAMP"
    fi
  ) 9>"$V.lock"
fi
exit 0
