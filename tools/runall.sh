#!/bin/sh
# developer tool: run every registered quick (or $1=thorough) check, print one summary line each
TIER=${1:-quick}
for p in C01 C02 C03 C04 C05 C06 C07 C08 C09 C10 C11 C12 C13 C14 C15 C16 C17 C18 C19 C20; do
  [ -f /verif/checks/$(echo $p | tr 'C' 'c').py ] || continue
  /verif/check $p --tier $TIER > /tmp/runall_$p.txt 2>&1; rc=$?
  echo "$p rc=$rc $(grep -c VIOLATION /tmp/runall_$p.txt) viol | $(tail -1 /tmp/runall_$p.txt | cut -c1-160)"
done
