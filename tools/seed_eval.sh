#!/bin/sh
# developer tool: tools/seed_eval.sh <ID> <dir-with-patch.diff-and-demo.py> [checks...]
# Confirms a seeded change in a scratch copy (suite still at baseline, demo fails with / passes without), then runs the given
# checks (default: the property's own) against the patched copy with VERIF_REPO. Scratch copy removed on exit.
ID=$1; SRC=$2; shift 2
CHECKS=${*:-$ID}
D=$(mktemp -d /tmp/puan_seed.XXXXXX)
trap 'rm -rf "$D"' EXIT
cp -r /repo/puan /repo/tests /repo/pytest.ini /repo/pyproject.toml "$D/" 2>/dev/null
( cd "$D" && git init -q . && git add -A >/dev/null 2>&1 && git -c user.email=x@x -c user.name=x commit -qm base )
mkdir -p "$D/_out"; cp "$SRC/demo.py" "$D/_out/demo.py"
( cd "$D" && PYTHONPATH="$D" /venv/bin/python "$D/_out/demo.py" >/dev/null 2>&1 ); echo "demo_without_change_exit=$?"
( cd "$D" && git apply "$SRC/patch.diff" ) || { echo "PATCH DOES NOT APPLY"; exit 9; }
( cd "$D" && PYTHONPATH="$D" /venv/bin/python "$D/_out/demo.py" >/dev/null 2>&1 ); echo "demo_with_change_exit=$?"
for i in 1 ${BASELINE_RUNS:-}; do python3 /verif/tools/baseline.py "$D" | tail -1; done
for c in $CHECKS; do
  VERIF_REPO="$D" /verif/check $c --tier ${TIER:-quick} > "$D/out_$c.txt" 2>&1; rc=$?
  echo "check $c rc=$rc : $(grep -c '^VIOLATION' "$D/out_$c.txt") VIOLATION lines; $(grep -m1 -A1 '^VIOLATION' "$D/out_$c.txt" | tail -1 | cut -c1-260)"
  grep -m2 "HARNESS-ERROR\|INCONCLUSIVE" "$D/out_$c.txt" | cut -c1-300
done
