#!/usr/bin/env python3
"""developer tool: run every instantiation of a check separately with a wall cap and report time/paths (finds the one that explodes)"""
import sys, os, time, multiprocessing as mp
sys.path.insert(0, os.path.dirname(os.path.dirname(os.path.abspath(__file__))))
sys.setrecursionlimit(10000)
from sx import driver, core as S
import importlib

def one(a):
    modname, spec, cap = a
    t = time.time()
    orig = S.explore
    def capped(fn, on_path=None, max_paths=20000, wall=None, timeout_ms=20000):
        return orig(fn, on_path, max_paths=max_paths, wall=cap, timeout_ms=timeout_ms)
    S.explore = capped
    r = driver._work((modname, spec, []))
    return (spec.get("name"), round(time.time() - t, 1), r["status"], (r.get("stats") or {}).get("paths"), r.get("why", "")[:80], {k: v for k, v in spec.items() if k not in ("model",)})

if __name__ == "__main__":
    prop, tier, cap = sys.argv[1], sys.argv[2], float(sys.argv[3])
    mod = importlib.import_module("checks.%s" % prop.lower())
    insts = list(mod.instantiations(tier, 0))
    for i, s in enumerate(insts):
        s.setdefault("name", "%s-%04d" % (prop, i)); s.setdefault("kind", "main")
    with mp.get_context("fork").Pool(16) as p:
        for r in p.imap_unordered(one, [("checks.%s" % prop.lower(), s, cap) for s in insts]):
            if r[1] > cap / 4 or r[2] != "ok":
                print(r)
