#!/usr/bin/env python3
"""developer tool: tools/seed_keep.py <NAME> <PROPERTY> <src-dir> <checks...>
Confirms a seeded breaking change in a scratch copy (baseline suite, demo with/without) and, if confirmed, stores it under /verif/seeded/<NAME>/
with meta.json recording what was run and which checks reported it."""
import json, os, re, shutil, subprocess, sys, tempfile
name, prop, src = sys.argv[1:4]
checks = sys.argv[4:] or [prop]
tier = os.environ.get("TIER", "quick")
D = tempfile.mkdtemp(prefix="puan_seed.", dir="/tmp")
try:
    for x in ("puan", "tests", "pytest.ini", "pyproject.toml"):
        s = os.path.join("/repo", x)
        (shutil.copytree if os.path.isdir(s) else shutil.copy)(s, os.path.join(D, x))
    subprocess.run("git init -q . && git add -A >/dev/null 2>&1 && git -c user.email=x@x -c user.name=x commit -qm base", shell=True, cwd=D)
    os.makedirs(D + "/_out")
    demo = open(src + "/demo.py").read()
    demo = re.sub(r"^(\s*)assert puan\.__file__.*$", r"\1pass", demo, flags=re.M)
    open(D + "/_out/demo.py", "w").write(demo)
    env = dict(os.environ, PYTHONPATH=D)
    r0 = subprocess.run(["/venv/bin/python", "-W", "ignore", D + "/_out/demo.py"], cwd=D, env=env, capture_output=True, text=True).returncode
    ap = subprocess.run(["git", "apply", src + "/patch.diff"], cwd=D, capture_output=True, text=True)
    if ap.returncode != 0:
        print("PATCH DOES NOT APPLY", ap.stderr); sys.exit(9)
    r1 = subprocess.run(["/venv/bin/python", "-W", "ignore", D + "/_out/demo.py"], cwd=D, env=env, capture_output=True, text=True).returncode
    base = [subprocess.run(["python3", "/verif/tools/baseline.py", D], capture_output=True, text=True).stdout.strip().splitlines()[-1] for _ in range(int(os.environ.get("BASELINE_RUNS", "2")))]
    results = {}
    for c in checks:
        p = subprocess.run(["/verif/check", c, "--tier", tier], env=dict(os.environ, VERIF_REPO=D), capture_output=True, text=True)
        viol = [l for l in p.stdout.splitlines() if l.startswith("VIOLATION")]
        first = ""
        lines = p.stdout.splitlines()
        for i, l in enumerate(lines):
            if l.startswith("VIOLATION") and i + 1 < len(lines):
                first = lines[i + 1].strip()[:300]; break
        results[c] = {"exit": p.returncode, "violation_lines": len(viol), "first": first,
                      "harness_errors": len([l for l in lines if l.startswith("HARNESS-ERROR")])}
    ok = (r0 == 0 and r1 != 0)
    print("demo without/with:", r0, r1, "| baseline:", base)
    for c, r in results.items():
        print(" check", c, r)
    meta = json.load(open(src + "/meta.json")) if os.path.exists(src + "/meta.json") else {}
    meta.update({"property": prop, "confirmed": {"demo_without_change_exit": r0, "demo_with_change_exit": r1, "baseline_runs": base},
                 "ran": ["scratch copy of /repo (puan/, tests/) under /tmp, git apply patch.diff, tools/baseline.py, demo.py with PYTHONPATH=<copy>",
                         "VERIF_REPO=<copy> ./check <ID> --tier %s for %s" % (tier, checks)],
                 "checks": results, "caught_by": [c for c, r in results.items() if r["exit"] == 1 and r["violation_lines"] > 0]})
    if ok:
        dst = "/verif/seeded/" + name
        os.makedirs(dst, exist_ok=True)
        if os.path.realpath(src) != os.path.realpath(dst):
            shutil.copy(src + "/patch.diff", dst + "/patch.diff")
        open(dst + "/demo.py", "w").write(demo)
        json.dump(meta, open(dst + "/meta.json", "w"), indent=1)
        print("kept ->", dst, "caught_by", meta["caught_by"])
    else:
        print("NOT CONFIRMED, not kept")
finally:
    shutil.rmtree(D, ignore_errors=True)
