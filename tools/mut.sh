#!/bin/sh
# developer tool: tools/mut.sh <PROP> <file-relative-to-repo> <sed-expression> [tier]
# copies the repository to a scratch dir outside /repo and /verif, applies one edit, runs the check, removes the copy
set -e
PROP=$1; FILE=$2; EXPR=$3; TIER=${4:-quick}
D=$(mktemp -d /tmp/puan_mut.XXXXXX)
trap 'rm -rf "$D"' EXIT
cp -r /repo/puan "$D/puan"
sed -i "$EXPR" "$D/$FILE"
if diff -q /repo/$FILE "$D/$FILE" >/dev/null; then echo "MUTATION DID NOT APPLY"; exit 9; fi
diff /repo/$FILE "$D/$FILE" | head -6 || true
set +e
VERIF_REPO="$D" /verif/check "$PROP" --tier "$TIER" > "$D/out.txt" 2>&1
echo "exit=$?"; grep -E "VIOLATION|HARNESS|INCONCL|KNOWN" "$D/out.txt" | cut -c1-300 | head -5; tail -1 "$D/out.txt"
