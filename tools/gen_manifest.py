#!/usr/bin/env python3
"""regenerates /verif/MANIFEST.json from the table below (developer tool)"""
import json, os
V = os.path.dirname(os.path.dirname(os.path.abspath(__file__)))
BASE_OFF = "cd /repo && /venv/bin/python -m pytest -ra -q -p no:cacheprovider --timeout=900 --continue-on-collection-errors"
LEVEL = ("bounded symbolic execution of the repository's own functions on z3 proxy integers (SX) with one SMT query per "
         "explored path: within the stated instantiation family and integer ranges the solver's verdict covers every value of "
         "the symbolic inputs; counterexamples are replayed on the unpatched code (plain interpreter, independent concrete oracle) "
         "before being reported; the encoding is validated on every run by executing the real code on solver-chosen (also "
         "boundary-biased) inputs and comparing with SX's prediction, first from a fresh process state and then again in groups without "
         "any reset in between (call-history pass, judged by the same concrete oracle; DESIGN.md M12); a sample of final queries is re-decided by cvc5. Nothing is "
         "claimed outside the bounds recorded in evidence. %s")
CHECKS = {
 "C09": ("§3 C09", "symbolic: arguments of one call (dictionaries over all ids incl. sub-proposition and top ids), thresholds/signs/boxes; cache key (hash and equality) of two configurators with independent symbolic item boxes; instantiated: models, operations", "M4, M5, M6, M7, M10; one inductive step from the freshly built object; open known finding assume-mutates-named-subproposition excluded as a class"),
 "C18": ("§3 C18", "symbolic: thresholds/signs of old and added rules; instantiated: configurators, addition sequences (<=3), id-clash selector; polyhedron/default priorities/select on a representative per path", "M4, M5, M6, M7; thin solver share (equalities between parameter terms), stated"),
 "C10": ("§3 C10", "symbolic: boxes of reused leaf ids, thresholds/signs of reused compound ids, hash arguments; instantiated: adversarial skeletons", "M4 hash shadow with explicit CPython int-hash model; M5 decided tokens (hash injective on integers) for errors(); CPython str/tuple hash collisions outside"),
 "C16": ("§3 C16", "symbolic: thresholds, explicit signs, integer-leaf boxes, leaf values (dict-level round trip); json.dumps/loads leg on concrete representatives; instantiated: skeletons, configurators, str vs variable leaves", "M4, M5, M6, M9; open known findings excluded as classes"),
 "C15": ("§3 C15", "symbolic: objective presence flags and weights (incl. foreign ids), the solver answer (one integer per column), priority values; instantiated (M7): models, configurators, answer kind; exact-solver clause concrete per instantiation with z3 optimiser plugged in", "M1, M4, M7, M8, M10; the harness is the solver callable"),
 "C14": ("§3 C14", "symbolic: priority values (<=3 ids), two 0/1 configurations over all columns constrained to the polyhedron; instantiated (M7): configurator models, prioritised-id subsets", "M1, M7, M8; lexicographic key written in the harness from the configurator spec"),
 "C13": ("§3 C13", "symbolic: every array entry (|p|<=50; the path decides sign, zero-ness and weak order); instantiated: shapes, axes, methods, earlier compressions of the same or of look-alike arrays", "M1 numpy shim; M8: real FFI on two representatives per call under the contract that its output depends only on weak order and signs"),
 "C20": ("§3 C20", "symbolic: dictionary presence flags and values, variable boxes, 0/1 entries, matrix entries, list membership flags; instantiated: id lists, dtypes, default kind", "M1, M4, M10; for from_list ids are concrete strings and only membership/position is symbolic (thin solver share, stated)"),
 "C19": ("§3 C19", "symbolic: matrix entries, right-hand sides, all point coordinates (fully symbolic up to 2x2, concrete matrices beyond, incl. a wide-value family with row sums above 2^53 inside int64); instantiated: shapes, points.ndim, function", "M1 numpy object-dtype shim, M3; QF_NIA queries share product terms with the oracle"),
 "C11": ("§3 C11", "symbolic: right-hand sides, variable boxes, an in-box point (also used as witness for the reduced system); instantiated: coefficient patterns, box families; fix-point loop unrolled by execution", "M1, M2, M3 (numpy shim differentially validated on every run); forced values unique so no quantifier alternation"),
 "C12": ("§3 C12", "symbolic: right-hand sides, variable boxes (16-bit), a point; instantiated: coefficient patterns (<=3x3, entries -3..3), box families", "M1 numpy object-dtype shim, M2 exact rational model of float division, M3 no int64 overflow in range; each validated differentially against real int64 numpy on every run"),
 "C02": ("§3 C02", "symbolic: all leaf values and all auxiliary columns within bounds; instantiated (M7): skeletons, thresholds, boxes, negation route", "M7 real FFI on concrete model parameters; reference truth function written in the harness; converse only asked for solver-safe skeletons"),
 "C01": ("§3 C01", "symbolic: the whole leaf assignment (incl. 16-bit ranges), evaluate_propositions executed symbolically; instantiated (M7, real Rust encoder): skeletons, thresholds, signs, boxes", "M7 real FFI on concrete model parameters; M4, M5; model parameters enumerated, not solver-quantified"),
 "C08": ("§3 C08", "symbolic: thresholds, signs, every leaf box (fixed-or-not is a fork), assumption presence/constants, leaf values; instantiated: skeletons, compound-bounds patterns", "M4, M5 structural, M6, M10"),
 "C07": ("§3 C07", "symbolic: thresholds, signs, boxes, assumption presence flags and values (constants, sub-ranges, compound constants), remaining leaf values; instantiated: skeletons, assumed-id subsets, value forms", "M4, M5 structural, M6, M10"),
 "C06": ("§3 C06", "symbolic: thresholds, signs, leaf boxes, per-leaf presence flag, interval and completion, child valuations for the flags; instantiated: skeletons, presence patterns, value forms", "M4, M5 structural, M6, M10"),
 "C04": ("§3 C04", "symbolic: every 0/1 leaf assignment, AtLeast/AtMost k on named nodes; instantiated: formulas (curated, seeded, exhaustive 2-level), construction route (constructors, from_json, from_cicJE)", "M4, M5 structural, M6; inherits the open known finding negate-mixed (class excluded, witness replayed)"),
 "C05": ("§3 C05", "symbolic: value/sign of the negated node and named descendants, integer-leaf boxes, leaf values; instantiated: skeletons, negate() vs Not()", "M4, M5 structural, M6; open known finding negate-mixed excluded as a class (see known_findings.json)"),
 "C17": ("§3 C17 / §4", "symbolic: thresholds, explicit signs, integer-leaf boxes, leaf values of the packed model; every entry (<=8), every variable box and the default priority vector of a directly built ge_polyhedron_config; instantiated: skeletons, configurators, fresh vs after queries, which constructor arguments are given. pickle/gzip/base64 run for real on the object graph; select() with the built-in solver only in the plain-interpreter runs", "M1, M4, M5 structural, M6, M8, M11 (pickle transports Python ints unchanged: symbolic integers ride through the real pickle as opaque tokens); thin solver share on the transport itself (equalities between parameter terms), the solver ranges over what the code does around it (state selection, rebuilding through constructors)"),
 "C03": ("§3 C03", "symbolic: thresholds, signs, integer-leaf boxes, leaf values, override presence/value; instantiated: model skeletons, value forms, leaf names",
         "M4 int shadow, M5 structural hash tokens, M6 explicit ids for symbolic thresholds, M10 symbolic dicts; skeleton family and ranges as recorded in evidence"),
}
NA = {
}
ALL = ["C%02d" % i for i in range(1, 21)]
checks = []
for pid in ALL:
    if pid in CHECKS:
        ref, what, note = CHECKS[pid]
        checks.append({
            "property_id": pid,
            "quick_cmd": "./check %s --tier quick" % pid,
            "thorough_cmd": "./check %s --tier thorough" % pid,
            "evidence_file": "/verif/evidence/%s.json" % pid,
            "replay_cmd_template": "./check %s --replay {path}" % pid,
            "engine": "sx",
            "level_claimed": {"category": "model_checking", "text": LEVEL % what, "design_ref": ref},
            "level_note": note,
            "technique": "symbolic execution of the real Python code on z3 proxies + SMT (z3), bounded",
        })
na = []
for pid in ALL:
    if pid in CHECKS:
        continue
    na.append({"property_id": pid, "reason": NA.get(pid, "check not built yet in this round (planned: DESIGN.md §3); not claimed until it runs")})
m = {
 "version": 1,
 "setup_cmd": "bin/ensure_env.sh",
 "hooks": {"guard": "PUAN_PYTHON_VERIF", "enable": "none needed: the checks patch nothing in /repo; all modelling is done from outside in the check process (DESIGN.md §2.3)",
           "baseline_off_cmd": BASE_OFF, "source_commits": [], "add_only": True},
 "engines": [{"name": "sx", "path": "/verif/sx", "serves_properties": sorted(CHECKS),
              "kind_free_text": "proxy-based symbolic executor for Python (SymInt/SymBool over z3 terms, re-execution with decision prefixes) + z3 5.1 SMT queries; plain-interpreter replay"}],
 "checks": checks,
 "not_applicable": na,
 "notes": "Exit codes of ./check: 0 held, 1 replay-confirmed violation, 2 inconclusive (cap/unknown), 3 harness mismatch or vacuity failure. VERIF_REPO overrides the repository path for mutation experiments.",
}
json.dump(m, open(os.path.join(V, "MANIFEST.json"), "w"), indent=1)
print("checks:", len(checks), "not_applicable:", len(na))
