#!/usr/bin/env python3
"""developer tool: run the repository's pinned test suite and compare with /root/.vp/BASELINE.json stable_pass"""
import json, subprocess, sys, tempfile, os, xml.etree.ElementTree as ET
repo = sys.argv[1] if len(sys.argv) > 1 else "/repo"
base = json.load(open("/root/.vp/BASELINE.json"))
f = tempfile.mktemp(suffix=".xml")
subprocess.run(["/venv/bin/python", "-m", "pytest", "-ra", "-q", "-p", "no:cacheprovider", "--timeout=900", "--continue-on-collection-errors",
                "--junitxml=" + f], cwd=repo, stdout=subprocess.DEVNULL, stderr=subprocess.DEVNULL)
passed = set()
for tc in ET.parse(f).getroot().iter("testcase"):
    if not any(ch.tag in ("failure", "error", "skipped") for ch in tc):
        passed.add(tc.get("classname") + "::" + tc.get("name"))
os.unlink(f)
missing = [t for t in base["stable_pass"] if t not in passed]
print("passed:", len(passed), "baseline stable:", len(base["stable_pass"]), "missing from baseline:", missing)
sys.exit(1 if missing else 0)
