"""C06 replay: real evaluate_propositions on the concrete partial interpretation; oracle: snapshot truth function at the completion;
flags/equation bounds against the concrete child valuation and brute-force extremes"""
from sx import plspec
from . import common as C


def _tup(x):
    return tuple(_tup(y) for y in x) if isinstance(x, (list, tuple)) else x


def observe(spec, inputs):
    n = C.ns()
    env = inputs["env"]
    m0 = plspec.build(n, spec["model"], env)
    out = {"snap": C.snapshot(n, m0), "error": None, "flags": {}}
    if spec.get("warm"):
        C.warm(m0)
    for nid, objs in C.walk(n, m0).items():
        nd = objs[0]
        if issubclass(nd.__class__, n.puan.variable):
            continue
        out["flags"][nid] = {"taut": bool(nd.is_tautology), "contr": bool(nd.is_contradiction),
                             "eqb": [int(nd.equation_bounds[0]), int(nd.equation_bounds[1])]}
    out["flags_multiset"] = sorted(([v["taut"], v["contr"], v["eqb"]] for v in out["flags"].values()), key=repr)
    if spec.get("part") == "flags":
        return out
    m1 = plspec.build(n, spec["model"], env)
    if spec.get("warm"):
        C.warm(m1)
    interp = {}
    for l, pres in inputs["present"].items():
        if pres:
            lo, hi = inputs["interval"][l]
            interp[l] = C.form(n, spec["forms"][l], lo, hi)
    try:
        r = m1.evaluate_propositions(interp)
        out["props"] = {k: [int(b.lower), int(b.upper)] for k, b in r.items()}
        m2 = plspec.build(n, spec["model"], env)
        ev = m2.evaluate(dict(interp))
        out["ev"] = [int(ev.lower), int(ev.upper)]
        out["topid"] = m2.id
    except Exception as e:   # noqa
        out["error"] = "%s: %s" % (type(e).__name__, e)
    return out


def judge(spec, inputs, out, ob):
    if out["error"] is not None:
        return True, "evaluate_propositions raised: " + out["error"]
    snap = _tup(out["snap"])
    ids = C.snap_ids(snap)
    bad = []
    for nid, (lo, hi) in out.get("props", {}).items():
        if nid not in ids:
            bad.append("unknown id " + nid)
            continue
        t = C.snap_eval(ids[nid], inputs["completion"])
        if not (lo <= t <= hi):
            bad.append("%s: returned bounds (%d,%d) do not contain the value %d it takes under completion" % (nid, lo, hi, t))
    if "props" in out and set(out["props"]) != set(ids):
        bad.append("result ids differ from model ids")
    if out.get("ev") is not None and out.get("topid") in ids:
        t = C.snap_eval(ids[out["topid"]], inputs["completion"])
        if not (out["ev"][0] <= t <= out["ev"][1]):
            bad.append("evaluate() returned bounds %s which do not contain the value %d the model takes under the completion" % (out["ev"], t))
    for nid, f in out["flags"].items():
        s = ids[nid]
        ys = inputs["children"].get(nid)
        if ys is None:
            continue
        lhs = s[2] * sum(ys)
        if f["taut"] and lhs < s[3]:
            bad.append("%s reported tautology but children %s give %d < %d" % (nid, ys, lhs, s[3]))
        if f["contr"] and lhs >= s[3]:
            bad.append("%s reported contradiction but children %s give %d >= %d" % (nid, ys, lhs, s[3]))
        los = [c[2] if c[0] == "var" else c[4] for c in s[6]]
        his = [c[3] if c[0] == "var" else c[5] for c in s[6]]
        ext = sorted([s[2] * sum(los) - s[3], s[2] * sum(his) - s[3]])
        if f["eqb"] != ext:
            bad.append("%s equation_bounds %s, attainable range %s" % (nid, f["eqb"], ext))
    return bool(bad), "; ".join(bad) + " | model=%s inputs=%s" % (plspec.show(spec["model"]), inputs)
