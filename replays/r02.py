"""C02 replay: real polyhedron, concrete point; oracle = snapshot truth function"""
from sx import plspec
from . import common as C


def _tup(x):
    return tuple(_tup(y) for y in x) if isinstance(x, (list, tuple)) else x


def _mk(n, spec):
    m = plspec.build(n, spec["model"], {})
    if spec["via"] == "negate":
        m = m.negate()
    elif spec["via"] == "Not":
        m = n.pg.Not(m)
    return m


def _safe(snap, neg_parent=False):
    if snap[0] == "var":
        return True
    if neg_parent:
        return False
    return all(_safe(c, snap[2] == -1) for c in snap[6])


def observe(spec, inputs):
    n = C.ns()
    out = {"error": None}
    try:
        m = _mk(n, spec)
        g = _mk(n, spec)
        out["snap"] = C.snapshot(n, g)
        M = m.to_ge_polyhedron(active=True)
        out["M"] = [[int(v) for v in row] for row in M.tolist()]
        out["cols"] = [str(v.id) for v in list(M.variables)[1:]]
        out["colbounds"] = [[int(v.bounds.lower), int(v.bounds.upper)] for v in list(M.variables)[1:]]
    except Exception as e:   # noqa
        out["error"] = "%s: %s" % (type(e).__name__, e)
    return out


def _rows_ok(out, val):
    for row in out["M"]:
        if sum(a * val[c] for a, c in zip(row[1:], out["cols"])) < row[0]:
            return False
    return True


def judge(spec, inputs, out, ob):
    if out["error"] is not None:
        return True, "construction / to_ge_polyhedron raised on a validated model: " + out["error"]
    snap = _tup(out["snap"])
    ids = C.snap_ids(snap)
    x = inputs["x"]
    top = C.snap_eval(snap, x)
    bad = []
    if set(out["cols"]) != set(map(str, ids)) - {str(snap[1])}:
        bad.append("column ids differ from model ids")
    else:
        if ob == "no-configuration-lost" and top == 1:
            val = {str(k): C.snap_eval(s, x) for k, s in ids.items()}
            if not _rows_ok(out, val):
                # is there any completion at all? brute force over auxiliaries (small)
                import itertools
                auxs = [c for c in out["cols"] if c not in x]
                found = len(auxs) > 16          # too many auxiliaries to enumerate: undecided, not reported
                if len(auxs) <= 16:
                    for combo in itertools.product((0, 1), repeat=len(auxs)):
                        v2 = dict(x)
                        v2.update(dict(zip(auxs, combo)))
                        if _rows_ok(out, v2):
                            found = True
                            break
                if not found:
                    bad.append("satisfying assignment %s cannot be completed to a point of the polyhedron" % x)
        if ob == "no-spurious-point" and _safe(snap):
            val = dict(x)
            val.update(inputs["aux"])
            inb = all(lo <= val[c] <= hi for c, (lo, hi) in zip(out["cols"], out["colbounds"]))
            if inb and _rows_ok(out, val) and top == 0:
                bad.append("in-bounds integer point %s satisfies the polyhedron but its leaf part makes the model false" % val)
    return bool(bad), "; ".join(bad) + " | model=%s via=%s" % (plspec.show(spec["model"]), spec["via"])
