"""C04 replay: build with the real constructors / from_json / from_cicJE, evaluate on the concrete 0/1 assignment,
compare with textbook semantics computed on python ints"""
import copy
from sx import plspec
from . import common as C


def observe(spec, inputs):
    n = C.ns()
    out = {"error": None}
    try:
        if spec["how"] == "cicje":
            m = n.pg.Imply.from_cicJE(copy.deepcopy(spec["rule"]))
        elif spec["how"] == "json":
            m = n.pg.from_json(plspec.to_json_spec(spec["model"], inputs["env"]))
        else:
            m = plspec.build(n, spec["model"], inputs["env"])
        v = m.evaluate(dict(inputs["vals"]))
        out["val"] = [int(v.lower), int(v.upper)]
    except Exception as e:   # noqa
        out["error"] = "%s: %s" % (type(e).__name__, e)
    return out


def _cic(rule, vals):
    cons = rule["consequence"]
    cs = [vals[c["id"]] for c in cons["components"]]
    rt = cons["ruleType"]
    cq = {"REQUIRES_ALL": all(c >= 1 for c in cs), "REQUIRES_ANY": any(c >= 1 for c in cs), "ONE_OR_NONE": sum(cs) <= 1,
          "FORBIDS_ALL": sum(cs) == 0, "REQUIRES_EXCLUSIVELY": sum(cs) == 1}[rt]
    cond = rule.get("condition")
    if not cond or not cond.get("subConditions"):
        return int(cq)
    subs = []
    for sc in cond["subConditions"]:
        xs = [vals[c["id"]] >= 1 for c in sc["components"]]
        subs.append(all(xs) if sc.get("relation", "ALL") == "ALL" else any(xs))
    cd = subs[0] if len(subs) == 1 else (all(subs) if cond.get("relation", "ALL") == "ALL" else any(subs))
    return int((not cd) or cq)


def judge(spec, inputs, out, ob):
    if out["error"] is not None:
        return True, "construction/evaluate raised: " + out["error"]
    if spec["how"] == "cicje":
        t = _cic(spec["rule"], inputs["vals"])
        desc = str(spec["rule"])
    else:
        t = plspec.plain_sem(spec["model"], inputs["env"], inputs["vals"])
        desc = plspec.show(spec["model"])
    if out["val"] != [t, t]:
        return True, "evaluates to %s, documented truth function gives %d | %s how=%s inputs=%s" % (out["val"], t, desc, spec["how"], inputs)
    return False, ""
