"""C20 replay: real numpy arrays / dicts / lists; oracle: direct definitions on python values"""
import math
import numpy
from . import common as C

FOREIGN = ["__other__", 99]


def _vars(n_, spec, inp):
    ids = spec["ids"]
    return [n_.puan.variable(ids[j], bounds=(inp["l%d" % j], inp["u%d" % j])) for j in range(len(ids))]


def observe(spec, inp):
    n_ = C.ns()
    pnd, puan = n_.pnd, n_.puan
    ids = spec["ids"]
    n = len(ids)
    out = {"error": None}
    try:
        part = spec["part"]
        if part == "construct":
            vs = _vars(n_, spec, inp)
            arr = pnd.variable_ndarray(numpy.zeros((1, n), dtype=numpy.int64), variables=vs)
            keys = ids + FOREIGN
            d = {keys[k]: inp["v%d" % k] for k in range(len(keys)) if inp["p%d" % k]}
            dv = (lambda v: v.bounds.upper - 7) if spec["default"] == "callable" else None
            res = arr.construct(d, default_value=dv, dtype=getattr(numpy, spec["dtype"]))
            out["res"] = [None if (isinstance(x, float) and math.isnan(x)) else int(x) for x in res.tolist()]
            out["dtype"] = str(res.dtype)
        elif part == "indices":
            vs = _vars(n_, spec, inp)
            arr = pnd.variable_ndarray(numpy.zeros((1, n), dtype=numpy.int64), variables=vs)
            out["bi"] = [int(x) for x in arr.boolean_variable_indices]
            out["ii"] = [int(x) for x in arr.integer_variable_indices]
            out["alt"] = [[int(x) for x in arr.variable_indices(a)] for a in (puan.Dtype.BOOL, "bool", puan.Dtype.INT, "int")]
        elif part == "to_list":
            vs = [puan.variable(i) for i in ids]
            if spec["nd"] == 1:
                arr = pnd.boolean_ndarray([inp["e%d" % j] for j in range(n)], variables=vs)
                out["res"] = [[str(v.id) for v in arr.to_list()]]
            else:
                arr = pnd.boolean_ndarray([[inp["e%d_%d" % (i, j)] for j in range(n)] for i in range(2)], variables=vs)
                out["res"] = [[str(v.id) for v in r] for r in arr.to_list()]
        elif part == "from_list":
            cands = [ids[-1], "__unknown__"] + list(reversed(ids[:-1])) + ["__other__"]
            cls = pnd.boolean_ndarray if spec["cls"] == "boolean" else pnd.integer_ndarray
            groups = 2 if spec["nested"] else 1
            lsts = [[c for k, c in enumerate(cands) if inp["f%d_%d" % (g, k)]] for g in range(groups)]
            out["lsts"] = lsts
            res = numpy.asarray(cls.from_list(lsts if spec["nested"] else lsts[0], ids))
            out["shape"] = list(res.shape)
            out["res"] = [[int(v) for v in (r if spec["nested"] else [r])] for r in res.tolist()] if res.size else []
            out["lsts"] = lsts
        else:
            nr = spec["rows"]
            vs = _vars(n_, spec, inp)
            ent = [[inp["m%d_%d" % (i, j)] for j in range(n + 1)] for i in range(nr)]
            if spec.get("edit"):
                ent0 = [[inp.get("n%d_%d" % (i, j), 0) for j in range(n + 1)] for i in range(nr)]
                P = pnd.ge_polyhedron(numpy.array(ent0, dtype=numpy.int64), variables=[puan.variable(0, bounds=(1, 1))] + vs)
                P.A, P.b, P.to_linalg(), P.A_max, P.A_min
                for i in range(nr):
                    for j in range(n + 1):
                        P[i, j] = ent[i][j]
            else:
                P = pnd.ge_polyhedron(numpy.array(ent, dtype=numpy.int64), variables=[puan.variable(0, bounds=(1, 1))] + vs)
            A2, b2 = P.to_linalg()
            out["ent"] = ent
            out["A"], out["b"] = P.A.tolist(), P.b.tolist()
            out["A2"], out["b2"] = A2.tolist(), b2.tolist()
            out["Avars"] = [str(v.id) for v in P.A.variables]
            out["A2vars"] = [str(v.id) for v in A2.variables]
    except Exception as e:   # noqa
        out["error"] = "%s: %s" % (type(e).__name__, e)
    return out


def judge(spec, inp, out, ob):
    if out["error"] is not None:
        return True, "raised: " + out["error"]
    ids = spec["ids"]
    n = len(ids)
    part = spec["part"]
    bad = []
    if part == "construct":
        isint = spec["dtype"].startswith("int")
        for j in range(n):
            if inp["p%d" % j]:
                exp = inp["v%d" % j]
            elif spec["default"] == "callable":
                exp = inp["u%d" % j] - 7
            elif isint:
                exp = inp["l%d" % j]
            else:
                exp = None
            if out["res"][j] != exp:
                bad.append("column %d (%r): got %s expected %s" % (j, ids[j], out["res"][j], exp))
    elif part == "indices":
        eb = [j for j in range(n) if (inp["l%d" % j], inp["u%d" % j]) == (0, 1)]
        ei = [j for j in range(n) if j not in eb]
        if out["bi"] != eb or out["ii"] != ei:
            bad.append("boolean/integer indices %s/%s expected %s/%s" % (out["bi"], out["ii"], eb, ei))
        if out["alt"] != [eb, eb, ei, ei]:
            bad.append("variable_indices(Dtype.BOOL / 'bool' / Dtype.INT / 'int') = %s expected %s" % (out["alt"], [eb, eb, ei, ei]))
    elif part == "to_list":
        rows = [[inp["e%d" % j] for j in range(n)]] if spec["nd"] == 1 else [[inp["e%d_%d" % (i, j)] for j in range(n)] for i in range(2)]
        for row, got in zip(rows, out["res"]):
            exp = [str(ids[j]) for j in range(n) if row[j] == 1]
            if sorted(got) != sorted(exp):
                bad.append("to_list gave %s expected %s" % (got, exp))
    elif part == "from_list":
        lsts = out["lsts"]
        if not spec["nested"] and len(lsts[0]) == 0:
            if out["res"] != []:
                bad.append("from_list([]) gave %s, documented result is an empty array" % out["res"])
        else:
            for g, l in enumerate(lsts):
                exp = [((1 + l.index(i)) if spec["cls"] == "integer" else 1) if i in l else 0 for i in ids]
                got = out["res"][g] if spec["nested"] else [r[0] for r in out["res"]]
                if got != exp:
                    bad.append("from_list(%s) gave %s expected %s" % (l, got, exp))
    elif part == "linalg":
        ent = out["ent"]
        if out["A"] != [r[1:] for r in ent] or out["A2"] != [r[1:] for r in ent]:
            bad.append("A is not the matrix without its first column")
        if out["b"] != [r[0] for r in ent] or out["b2"] != [r[0] for r in ent]:
            bad.append("b is not the first column")
        if out["Avars"] != [str(i) for i in ids] or out["A2vars"] != [str(i) for i in ids]:
            bad.append("A.variables %s do not match the columns %s" % (out["Avars"], ids))
    return bool(bad), "; ".join(bad) + " | spec=%s inputs=%s" % (spec, inp)
