"""C03 replay: real evaluate/evaluate_propositions on concrete inputs; oracle = arithmetic truth function
computed on a snapshot of the freshly built object graph."""
from sx import plspec
from . import common as C


def _interp(n, spec, inputs):
    d = {}
    for l, v in inputs["vals"].items():
        d[l] = C.form(n, spec["forms"][l], v)
    for oid, (present, o) in inputs.get("ov", {}).items():
        if present:
            d[oid] = C.form(n, spec["ovform"], o)
    return d


def observe(spec, inputs):
    n = C.ns()
    env = inputs["env"]
    m1 = plspec.build(n, spec["model"], env)
    m2 = plspec.build(n, spec["model"], env)
    snap = C.snapshot(n, m1)
    out = {"snap": snap, "topid": m1.id}
    try:
        if spec.get("warm"):
            C.warm(m1)
            C.warm(m2)
        r = m1.evaluate_propositions(_interp(n, spec, inputs))
        top = m2.evaluate(_interp(n, spec, inputs))
        out["props"] = {k: [int(b.lower), int(b.upper)] for k, b in r.items()}
        out["top"] = [int(top.lower), int(top.upper)]
        out["error"] = None
    except Exception as e:   # noqa
        out["error"] = "%s: %s" % (type(e).__name__, e)
    return out


def _tup(x):
    return tuple(_tup(y) for y in x) if isinstance(x, (list, tuple)) else x


def judge(spec, inputs, out, ob):
    if out["error"] is not None:
        return True, "evaluate raised on a validated model: " + out["error"]
    snap = _tup(out["snap"])
    fixed = {k: o for k, (p, o) in inputs.get("ov", {}).items() if p}
    ids = C.snap_ids(snap)
    bad = []
    for nid, (lo, hi) in out["props"].items():
        if nid not in ids:
            bad.append("unknown id %r in result" % nid)
            continue
        t = C.snap_eval(ids[nid], inputs["vals"], fixed)
        if lo != t or hi != t:
            bad.append("%s: evaluated (%d,%d), truth function gives %d" % (nid, lo, hi, t))
    prefixed = any(c.get("vb") in ([1, 1], [0, 0]) for c in plspec.compounds(spec["model"]))
    if not fixed and not prefixed and set(out["props"]) != set(ids):
        bad.append("result ids %s != model ids %s" % (sorted(out["props"]), sorted(ids)))
    t = C.snap_eval(snap, inputs["vals"], fixed)
    if out["top"] != [t, t]:
        bad.append("evaluate() = %s, truth function gives %d" % (out["top"], t))
    return bool(bad), "; ".join(bad) + " | inputs=%s" % inputs
