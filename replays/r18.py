"""C18 replay: real add() chain vs direct construction on concrete parameters (structure, default priorities, polyhedron, select with a brute-force solver)"""
import itertools
import numpy
from sx import plspec
from . import common as C



def _clear_caches(ns_):
    """empty the configurator-level caches if the current tree has any (lru_cache on the class, pinned tree); a no-op for per-instance caches"""
    for name in ("ge_polyhedron", "leafs"):
        f = ns_.cc.StingyConfigurator.__dict__.get(name)
        f = getattr(f, "fget", f)
        cc_ = getattr(f, "cache_clear", None)
        if cc_ is not None:
            cc_()

def _snap(n, node):
    if issubclass(node.__class__, n.puan.variable):
        return ("var", str(node.id), int(node.bounds.lower), int(node.bounds.upper))
    return ("cmp", type(node).__name__, str(node.id), bool(node.generated_id), int(node.sign), int(node.value), int(node.bounds.lower), int(node.bounds.upper),
            getattr(node, "prio", None), tuple(str(v.id) for v in getattr(node, "default", []) or []), tuple(_snap(n, c) for c in node.propositions))


def _brute(P, objs):
    A = numpy.asarray(P.A).astype(int)
    b = numpy.asarray(P.b).astype(int)
    nc = A.shape[1]
    if nc > 18:
        return [(None, None, 5) for _ in objs]
    pts = numpy.array(list(itertools.product((0, 1), repeat=nc)), dtype=int)
    feas = pts[(pts @ A.T >= b).all(axis=1)]
    out = []
    for o in objs:
        if len(feas) == 0:
            out.append((None, None, 5))
        else:
            out.append((feas[int(numpy.argmax(feas @ numpy.asarray(o).astype(int)))], 0, 6))
    return out


def observe(spec, inputs):
    n = C.ns()
    env = inputs["env"]
    base, added = spec["model"], spec["added"]
    out = {"error": None, "raised": None}
    try:
        _clear_caches(n)
        c0 = plspec.build(n, base, env)
        out["before"] = _snap(n, c0)
        out["orig_id"] = str(c0.id)
        cur = c0
        for r in added:
            try:
                cur.ge_polyhedron
                cur.leafs()
                cur = cur.add(plspec.build(n, r, env))
            except Exception as e:   # noqa
                out["raised"] = "%s: %s" % (type(e).__name__, e)
                break
        out["after"] = _snap(n, c0)
        out["chain"] = _snap(n, cur)
        out["chain_id"] = str(cur.id)
        if spec["clash"] is None and out["raised"] is None:
            direct = plspec.build(n, {"t": "SC", "id": (c0.id if spec.get("genid") else base["id"]), "ch": list(base["ch"]) + list(added)}, env)
            out["direct"] = _snap(n, direct)
            out["prios_equal"] = cur.default_prios == direct.default_prios
            _clear_caches(n)
            Pa = cur.ge_polyhedron
            _clear_caches(n)
            Pb = direct.ge_polyhedron
            out["poly_equal"] = bool(numpy.asarray(Pa).tolist() == numpy.asarray(Pb).tolist() and [v.id for v in Pa.variables] == [v.id for v in Pb.variables]
                                     and list(Pa.default_prio_vector) == list(Pb.default_prio_vector))
            items = [v.id for v in cur.leafs()][:2]
            pr = {i: k + 1 for k, i in enumerate(items)}
            sa = [dict((str(a), int(b)) for a, b in s[0].items()) for s in cur.select(pr, solver=_brute)]
            sb = [dict((str(a), int(b)) for a, b in s[0].items()) for s in direct.select(pr, solver=_brute)]
            out["select_equal"] = sa == sb
    except Exception as e:   # noqa
        out["error"] = "%s: %s" % (type(e).__name__, e)
    return out


def _t(x):
    return tuple(_t(y) for y in x) if isinstance(x, (list, tuple)) else x


def judge(spec, inputs, out, ob):
    if out["error"] is not None:
        return True, "raised: " + out["error"]
    bad = []
    if _t(out["before"]) != _t(out["after"]):
        bad.append("add() changed the configurator it was called on")
    if spec["clash"] is not None:
        if out["raised"] is None:
            bad.append("rule id clashes with an existing top-level proposition but add() did not refuse it")
    else:
        if out["raised"] is not None:
            bad.append("add() raised without an id clash: " + out["raised"])
        else:
            if _t(out["chain"]) != _t(out["direct"]):
                bad.append("add-chain result differs structurally from direct construction")
            if out["chain_id"] != out["orig_id"]:
                bad.append("configurator id not kept")
            if not out["prios_equal"]:
                bad.append("default priorities differ")
            if not out["poly_equal"]:
                bad.append("polyhedron differs")
            if not out["select_equal"]:
                bad.append("select() answers differ")
    return bool(bad), "; ".join(bad) + " | base=%s added=%s env=%s" % (plspec.show(spec["model"]), [plspec.show(r) for r in spec["added"]], inputs["env"])
