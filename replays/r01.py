"""C01 replay: real to_ge_polyhedron + real evaluate_propositions on a concrete assignment; the comparison is plain integer arithmetic"""
from sx import plspec
from . import common as C


def observe(spec, inputs):
    n = C.ns()
    for sb in spec.get("before", []):
        try:
            sm = plspec.build(n, sb, {})
            sm.to_ge_polyhedron(active=True)
            sm.to_ge_polyhedron(active=False)
        except Exception:   # noqa
            pass
    m = plspec.build(n, spec["model"], {})
    m1 = plspec.build(n, spec["model"], {})
    out = {"error": None, "topid": m.id}
    try:
        M = m.to_ge_polyhedron(active=spec["active"])
        r = m1.evaluate_propositions(dict(inputs["x"]))
        out["props"] = {str(k): int(b.lower) for k, b in r.items()}
        out["const"] = all(int(b.lower) == int(b.upper) for b in r.values())
        out["M"] = [[int(v) for v in row] for row in M.tolist()]
        out["cols"] = [str(v.id) for v in list(M.variables)[1:]]
        out["colbounds"] = [[int(v.bounds.lower), int(v.bounds.upper)] for v in list(M.variables)[1:]]
        out["modelbounds"] = {str(nd.id): [int(nd.bounds.lower), int(nd.bounds.upper)] for nd in m1.flatten()}
    except Exception as e:   # noqa
        out["error"] = "%s: %s" % (type(e).__name__, e)
    return out


def judge(spec, inputs, out, ob):
    if out["error"] is not None:
        return True, "to_ge_polyhedron/evaluate raised on a validated model: " + out["error"]
    bad = []
    want = set(out["modelbounds"]) - ({str(out["topid"])} if spec["active"] else set())
    if set(out["cols"]) != want or len(set(out["cols"])) != len(out["cols"]):
        bad.append("column ids %s != model ids %s" % (sorted(out["cols"]), sorted(want)))
    else:
        for c, b in zip(out["cols"], out["colbounds"]):
            if out["modelbounds"][c] != b:
                bad.append("column %s bounds %s != model bounds %s" % (c, b, out["modelbounds"][c]))
        ok = True
        for row in out["M"]:
            lhs = sum(a * out["props"][c] for a, c in zip(row[1:], out["cols"]))
            ok = ok and (lhs >= row[0])
        top = out["props"][str(out["topid"])]
        if not out["const"]:
            bad.append("evaluate_propositions did not return constants on a total assignment")
        if spec["active"] and ok != (top == 1):
            bad.append("rows satisfied=%s but model evaluates to %d" % (ok, top))
        if not spec["active"] and not ok:
            bad.append("extended assignment infeasible for the non-asserted polyhedron")
    return bool(bad), "; ".join(bad) + " | model=%s active=%s x=%s" % (plspec.show(spec["model"]), spec["active"], inputs["x"])
