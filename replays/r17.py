"""C17 replay: real to_b64 -> from_b64 on concrete parameters (real pickle/gzip/base64, real ints); oracle: field-by-field comparison of the two
object graphs, their text/JSON forms, evaluation against the snapshot truth function, polyhedra and select() answers"""
import numpy
from sx import plspec
from . import common as C


def _tup(x):
    return tuple(_tup(y) for y in x) if isinstance(x, (list, tuple)) else x


def _struct(n, node):
    """everything the statement lists: class, id, bounds, generated-id flag, value, sign, defaults, children (in order)"""
    if issubclass(node.__class__, n.puan.variable):
        return ["leaf", type(node).__module__ + "." + type(node).__name__, repr(node.id), int(node.bounds.lower), int(node.bounds.upper),
                str(getattr(node, "dtype", None))]
    d = [type(node).__module__ + "." + type(node).__name__, repr(node.id), int(node.bounds.lower), int(node.bounds.upper), bool(node.generated_id),
         int(node.value), int(node.sign), [repr(getattr(v, "id", v)) for v in (getattr(node, "default", None) or [])]]
    if hasattr(node, "default_prios"):
        d.append(sorted((repr(k), int(v)) for k, v in node.default_prios.items()))
    return d + [[_struct(n, c) for c in node.propositions]]


def _forms(m):
    out = {}
    for f in ("to_text", "to_short", "to_json"):
        try:
            out[f] = repr(getattr(m, f)())
        except Exception as e:   # noqa
            out[f] = "raised " + type(e).__name__
    return out


def _poly(P):
    return {"cls": type(P).__name__, "M": numpy.asarray(P).tolist(), "dtype": str(P.dtype),
            "vars": [[repr(v.id), int(v.bounds.lower), int(v.bounds.upper), type(v).__name__] for v in P.variables],
            "index": [[repr(getattr(v, "id", v)), type(v).__name__] for v in P.index],
            "prio": [float(x) for x in P.default_prio_vector] if getattr(P, "default_prio_vector", None) is not None else None}


def observe(spec, inputs):
    n = C.ns()
    out = {"error": None}
    if spec["part"] == "poly":
        return _observe_poly(n, spec, inputs, out)
    env = inputs["env"]
    iscfg = spec["kind_"] == "cfg"
    stage = "build"
    try:
        m0 = plspec.build(n, spec["model"], env)
        out["snap"] = C.snapshot(n, m0)
        m1 = plspec.build(n, spec["model"], env)
        stage = "packing sibling objects first"
        for sb in spec.get("before", []):
            plspec.build(n, sb, env).to_b64()
        stage = "queries before packing"
        if spec.get("warm"):
            C.warm(m1)
            if iscfg:
                m1.ge_polyhedron
        stage = "to_b64"
        s = m1.to_b64()
        out["is_str"] = isinstance(s, str)
        stage = "from_b64"
        m2 = n.pg.from_b64(s)
        out["struct0"], out["struct2"] = _struct(n, m0), _struct(n, m2)
        out["forms0"], out["forms2"] = _forms(m0), _forms(m2)
        stage = "evaluate"
        v = m2.evaluate(dict(inputs["vals"]))
        out["val"] = [int(v.lower), int(v.upper)]
        r0 = m0.evaluate_propositions(dict(inputs["vals"]))
        r2 = m2.evaluate_propositions(dict(inputs["vals"]))
        out["props0"] = {str(k): [int(b.lower), int(b.upper)] for k, b in r0.items()}
        out["props"] = {str(k): [int(b.lower), int(b.upper)] for k, b in r2.items()}
        stage = "to_ge_polyhedron"
        for act in (True, False):
            out["poly0_%s" % act] = _poly(m0.to_ge_polyhedron(active=act))
            out["poly2_%s" % act] = _poly(m2.to_ge_polyhedron(active=act))
        if iscfg:
            stage = "configurator polyhedron / select"
            out["cpoly0"], out["cpoly2"] = _poly(m0.ge_polyhedron), _poly(m2.ge_polyhedron)
            items = sorted((str(v.id) for v in m0.flatten() if type(v) is n.puan.variable))
            sel = []
            prios_ = ([{}] + [{items[0]: 1}] if items else [{}])
            if not C.terminates(("r17", plspec.show(spec["model"])), lambda: [list(plspec.build(n, spec["model"], env).select(dict(q))) for q in prios_]):
                prios_ = []          # the built-in solver does not return on this configurator: nothing to compare
                out["builtin_solver"] = "did not return within the probe time; comparison skipped"
            for prio in prios_:
                a = [(None if x is None else sorted((repr(k), int(w)) for k, w in x.items()), z, c) for x, z, c in m0.select(dict(prio))]
                b = [(None if x is None else sorted((repr(k), int(w)) for k, w in x.items()), z, c) for x, z, c in m2.select(dict(prio))]
                sel.append([repr(a), repr(b)])
            out["select"] = sel
    except Exception as e:   # noqa
        out["error"] = "%s in %s: %s" % (type(e).__name__, stage, e)
    return out


def _observe_poly(n, spec, inputs, out):
    pnd, puan = n.pnd, n.puan
    r, c = spec["shape"]
    stage = "construct"
    try:
        kw = {}
        if spec["vars"] == "given":
            kw["variables"] = [puan.variable(0, bounds=(1, 1))] + [puan.variable("x%d" % j, bounds=tuple(inputs["boxes"][j - 1])) for j in range(1, c)]
        if spec["index"] == "given":
            kw["index"] = [puan.variable("row%d" % i) for i in range(r)]
        elif spec["index"] == "ints":
            kw["index"] = list(range(10, 10 + r))
        if spec["prio"] == "sym":
            kw["default_prio_vector"] = numpy.array(inputs["prio"], dtype=numpy.int64)
        elif spec["prio"] == "zeros":
            kw["default_prio_vector"] = numpy.zeros(c - 1, dtype=numpy.int64)
        P = pnd.ge_polyhedron_config(numpy.array(inputs["entries"], dtype=numpy.int64), **kw)
        if spec.get("warm"):
            P.A, P.b, P.column_bounds(), P.row_bounds()
        stage = "to_b64"
        s = P.to_b64()
        out["is_str"] = isinstance(s, str)
        stage = "from_b64"
        P2 = pnd.ge_polyhedron_config.from_b64(s)
        out["p0"], out["p2"] = _poly(P), _poly(P2)
        out["entries"] = numpy.asarray(P2).astype(int).tolist()
        out["prio"] = [int(x) for x in P2.default_prio_vector]
        if spec.get("select") and c > 1:
            stage = "select"
            key = P.A.variables[0].id
            solver = lambda poly, objs: [(numpy.array(list(o)), 0, 5) for o in objs]    # noqa
            f = lambda res: repr([(None if x is None else [(repr(k), int(w)) for k, w in x.items()], z, cc) for x, z, cc in res])   # noqa
            out["sel0"], out["sel2"] = f(P.select({key: 1}, solver=solver)), f(P2.select({key: 1}, solver=solver))
    except Exception as e:   # noqa
        out["error"] = "%s in %s: %s" % (type(e).__name__, stage, e)
    return out


def judge(spec, inputs, out, ob):
    if out["error"] is not None:
        if " in construct: " in out["error"]:
            return False, "constructor rejects the instantiation"
        return True, "base64 round trip raised: " + out["error"] + " | inputs=%s" % (inputs,)
    bad = []
    if not out.get("is_str"):
        bad.append("to_b64 did not return a str")
    if spec["part"] == "poly":
        if out["p0"] != out["p2"]:
            bad.append("unpacked polyhedron differs: " + "; ".join("%s: %s became %s" % (k, out["p0"][k], out["p2"][k]) for k in out["p0"] if out["p0"][k] != out["p2"][k])[:400])
        if out["p0"]["M"] != inputs["entries"]:
            bad.append("constructed matrix differs from the entries given")
        if out.get("sel0") != out.get("sel2"):
            bad.append("select() answers differ: %s vs %s" % (out["sel0"][:150], out["sel2"][:150]))
        return bool(bad), "; ".join(bad) + " | spec=%s inputs=%s" % ({k: spec[k] for k in ("shape", "prio", "vars", "index", "warm")}, inputs)
    if out["struct0"] != out["struct2"]:
        bad.append("structure differs: %s" % _first_diff(out["struct0"], out["struct2"]))
    for k in out["forms0"]:
        if out["forms0"][k] != out["forms2"][k]:
            bad.append("%s() differs: %s vs %s" % (k, out["forms0"][k][:120], out["forms2"][k][:120]))
    t = C.snap_eval(_tup(out["snap"]), inputs["vals"])
    if out["val"] != [t, t]:
        bad.append("unpacked model evaluates to %s, original to %d" % (out["val"], t))
    if out["props0"] != out["props"]:
        bad.append("evaluate_propositions differs: " + "; ".join("%s: %s vs %s" % (k, out["props0"].get(k), out["props"].get(k))
                                                                 for k in set(out["props0"]) | set(out["props"]) if out["props0"].get(k) != out["props"].get(k))[:300])
    for act in (True, False):
        if out["poly0_%s" % act] != out["poly2_%s" % act]:
            bad.append("to_ge_polyhedron(active=%s) differs" % act)
    if spec["kind_"] == "cfg":
        if out["cpoly0"] != out["cpoly2"]:
            bad.append("configurator polyhedron differs")
        for a, b in out["select"]:
            if a != b:
                bad.append("select() differs: %s vs %s" % (a[:150], b[:150]))
    return bool(bad), "; ".join(bad) + " | model=%s inputs=%s" % (plspec.show(spec["model"]), inputs)


def _first_diff(a, b, path="top"):
    if isinstance(a, list) and isinstance(b, list) and len(a) == len(b):
        for k, (x, y) in enumerate(zip(a, b)):
            if x != y:
                return _first_diff(x, y, "%s[%d]" % (path, k))
    return "%s: %r became %r" % (path, a if not isinstance(a, list) else str(a)[:80], b if not isinstance(b, list) else str(b)[:80])
