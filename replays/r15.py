"""C15 replay: the real solve()/select() with a scripted solver callable returning the concrete vector; oracle: direct id alignment"""
import numpy
from sx import plspec, cfg
from . import common as C


def _clear_caches(ns_):
    """empty the configurator-level caches if the current tree has any (lru_cache on the class, pinned tree); a no-op for per-instance caches"""
    for name in ("ge_polyhedron", "leafs"):
        f = ns_.cc.StingyConfigurator.__dict__.get(name)
        f = getattr(f, "fget", f)
        cc_ = getattr(f, "cache_clear", None)
        if cc_ is not None:
            cc_()

FOREIGN = ["__foreign__", "zz-unknown"]


class SolverRaised(Exception):
    pass


def observe(spec, inp):
    n = C.ns()
    out = {"error": None}
    part = spec["part"]
    try:
        _clear_caches(n)
        _clear_caches(n)
        m0 = plspec.build(n, spec["model"], {})
        M0 = m0.to_ge_polyhedron(active=True)
        cols = [v.id for v in M0.A.variables]
        out["cols"] = [str(c) for c in cols]
        nodes = C.walk(n, plspec.build(n, spec["model"], {}))
        out["gen"] = [str(k) for k, o in nodes.items() if getattr(o[0], "generated_id", False)]
        out["leafs"] = [str(k) for k, o in nodes.items() if type(o[0]) == n.puan.variable]
        if part == "exact":
            import itertools
            weights = inp["weights"]
            A = numpy.asarray(M0.A).astype(int)
            b = numpy.asarray(M0.b).astype(int)
            rngs = [range(int(v.bounds.lower), int(v.bounds.upper) + 1) for v in M0.A.variables]
            npts = 1
            for r in rngs:
                npts *= len(r)
            if npts > 300000:
                out["exact"] = "too-large"
                return out
            pts = numpy.array(list(itertools.product(*rngs)), dtype=int).reshape(-1, len(rngs))
            feas = pts[(pts @ A.T >= b).all(axis=1)]
            out["nfeas"] = int(len(feas))

            def brute(P, objs):
                res = []
                for o in objs:
                    if len(feas) == 0:
                        res.append((None, None, 5))
                    else:
                        res.append((feas[int(numpy.argmax(feas @ numpy.asarray(o).astype(int)))], 0, 6))
                return res
            m1 = plspec.build(n, spec["model"], {})
            rep = list(m1.solve([dict(weights)], solver=brute, include_virtual_variables=True))[0][0]
            out["rep"] = {str(k): int(v) for k, v in rep.items()}
            wv = numpy.array([weights.get(str(c), weights.get(c, 0)) for c in cols])
            out["best"] = int((feas @ wv).max()) if len(feas) else None
            out["val"] = int(sum(weights.get(str(c), 0) * out["rep"].get(str(c), 0) for c in cols)) if rep else None
            g = plspec.build(n, spec["model"], {})
            leaves = [k for k, o in C.walk(n, g).items() if issubclass(o[0].__class__, n.puan.variable)]
            ev = g.evaluate({k: int(rep[k]) for k in leaves}) if rep else None
            out["ev"] = [int(ev.lower), int(ev.upper)] if ev is not None else None
            out["snap"] = C.snapshot(n, plspec.build(n, spec["model"], {}))
            return out
        got = {}

        def solver(P, objs):
            got["objs"] = [[int(v) for v in o] for o in objs]
            got["same"] = numpy.asarray(P).astype(int).tolist() == numpy.asarray(M0).astype(int).tolist() and [v.id for v in P.variables] == [v.id for v in M0.variables]
            if spec["answer"] == "raise":
                how = spec.get("raise_how", "message")
                if how == "bare":
                    raise SolverRaised
                if how == "assert":
                    raise AssertionError()
                if how == "two-args":
                    raise SolverRaised("solver failed", 3)
                raise SolverRaised("x")
            res = []
            for k in range(len(got["objs"])):
                if spec["answer"] == "none":
                    res.append((None, 0, 4))
                else:
                    res.append((numpy.array([inp["s%d_%d" % (k, j)] for j in range(len(cols))]), 0, 6))
            return res
        m1 = plspec.build(n, spec["model"], {})
        try:
            if part == "solve":
                keys = cols + FOREIGN
                import random
                prng = random.Random(len(keys) * 7 + spec["nobj"])
                objs = []
                for k in range(spec["nobj"]):
                    symk = set(prng.sample(range(len(cols)), min(2, len(cols))) + [len(cols)])
                    pres = [inp["q%d_%d" % (k, i)] if i in symk else (prng.random() < 0.5) for i in range(len(keys))]
                    objs.append({keys[i]: inp["w%d_%d" % (k, i)] for i in range(len(keys)) if pres[i]})
                out["objs_in"] = [{str(a): b for a, b in o.items()} for o in objs]
                res = list(m1.solve(objs, solver=solver, include_virtual_variables=spec["virtual"]))
                out["rep"] = [{str(a): int(b) for a, b in r[0].items()} for r in res]
            else:
                prios = {k: inp["p_%s" % k] for k in spec["prio_keys"]}
                more = [{spec["prio_keys"][-1]: 2 + j} for j in range(spec.get("nprio", 1) - 1)]
                out["nreq"] = 1 + len(more)
                if part == "select":
                    P = m1.ge_polyhedron
                    res = list(P.select(dict(prios), *map(dict, more), solver=solver))
                    out["rep"] = [{str(a): int(b) for a, b in r[0].items()} for r in res]
                    # one request at a time through the same code path gives the reference objectives
                    out["exp_obj"] = [[int(v) for v in P._vectors_from_prios([dict(q)])[0]] for q in [prios] + more]
                else:
                    res = list(m1.select(dict(prios), *map(dict, more), solver=solver, only_leafs=spec["only_leafs"]))
                    out["rep"] = [{str(a): int(b) for a, b in (r if spec["only_leafs"] else r[0]).items()} for r in res]
            out["raised"] = None
        except n.pnd.InfeasibleError:
            out["raised"] = "InfeasibleError"
        except Exception as e:   # noqa
            out["raised"] = "%s: %s" % (type(e).__name__, e)
        out["got"] = got
    except Exception as e:   # noqa
        out["error"] = "%s: %s" % (type(e).__name__, e)
    return out


def judge(spec, inp, out, ob):
    if out["error"] is not None:
        return True, "raised: " + out["error"]
    part = spec["part"]
    if part == "exact":
        if out.get("exact") == "too-large":
            return False, "exact replay skipped: too many points to enumerate"
        bad = []
        if out["nfeas"] > 0:
            if set(out["rep"]) != set(out["cols"]):
                bad.append("reported ids %s != columns" % sorted(out["rep"]))
            elif out["val"] != out["best"]:
                bad.append("reported solution %s has value %s for the requested weights, optimum is %s" % (out["rep"], out["val"], out["best"]))

            def safe(snap, neg=False):
                if snap[0] == "var":
                    return True
                if neg:
                    return False
                return all(safe(c, snap[2] == -1) for c in snap[6])

            def tup(x):
                return tuple(tup(y) for y in x) if isinstance(x, (list, tuple)) else x
            if safe(tup(out["snap"])) and out["ev"] != [1, 1]:
                bad.append("reported solution does not satisfy the solver-safe model (evaluates to %s)" % out["ev"])
        elif out["rep"] != {}:
            bad.append("infeasible polyhedron but non-empty report")
        return bool(bad), "; ".join(bad)
    cols = out["cols"]
    bad = []
    if spec["answer"] == "raise":
        if out["raised"] != "InfeasibleError":
            bad.append("solver exception surfaced as %s" % out["raised"])
        return bool(bad), "; ".join(bad)
    if out["raised"] is not None:
        return True, "raised: %s" % out["raised"]
    got = out["got"]
    if not got.get("same"):
        bad.append("solver did not receive the asserted polyhedron")
    if part == "solve":
        for k, o in enumerate(out["objs_in"]):
            exp = [o.get(c, 0) for c in cols]
            if got["objs"][k] != exp:
                bad.append("objective %d received %s expected %s" % (k, got["objs"][k], exp))
    elif part == "select":
        if got["objs"] != out["exp_obj"]:
            bad.append("objective received %s expected %s" % (got["objs"], out["exp_obj"]))
    if part != "solve" and len(out["rep"]) != out.get("nreq", 1):
        bad.append("%d requests but %d answers reported" % (out.get("nreq", 1), len(out["rep"])))
    for k, rep in enumerate(out["rep"]):
        if spec["answer"] == "none":
            if rep != {}:
                bad.append("None solution reported as %s" % rep)
            continue
        s = [inp["s%d_%d" % (k, j)] for j in range(len(cols))]
        if part == "solve":
            keep = [c for c in cols if not (c in out["gen"] and not spec["virtual"])]
        elif part == "cfgselect" and spec["only_leafs"]:
            keep = [c for c in cols if c in out["leafs"]]
        else:
            keep = cols
        exp = {c: s[cols.index(c)] for c in keep}
        if rep != exp:
            bad.append("reported %s expected %s" % (rep, exp))
    return bool(bad), "; ".join(bad)[:1500] + " | spec=%s" % ({k: v for k, v in spec.items() if k != "model"},)
