"""helpers for the plain-interpreter replay side (no z3, no SX proxies)"""
import itertools
import sys


class NS:
    pass


_ns = None


def ns():
    global _ns
    if _ns is None:
        import puan
        import puan.logic.plog as pg
        import puan.ndarray as pnd
        import puan.modules.configurator as cc
        n = NS()
        n.puan, n.pg, n.pnd, n.cc = puan, pg, pnd, cc
        _ns = n
    return _ns


def form(n, kind, lo, hi=None):
    hi = lo if hi is None else hi
    if kind == "int":
        return lo
    if kind == "tuple":
        return (lo, hi)
    if kind == "bounds":
        return n.puan.Bounds(lo, hi)
    raise ValueError(kind)


def walk(n, node, acc=None):
    """id -> list of distinct objects carrying that id, from a built object graph"""
    acc = {} if acc is None else acc
    lst = acc.setdefault(node.id, [])
    if not any(o is node for o in lst):
        lst.append(node)
    if not issubclass(node.__class__, n.puan.variable):
        for c in node.propositions:
            walk(n, c, acc)
    return acc


def snapshot(n, node):
    """arithmetic skeleton of a built object graph: nested tuples of plain ints/strings"""
    if issubclass(node.__class__, n.puan.variable):
        return ("var", node.id, int(node.bounds.lower), int(node.bounds.upper))
    return ("cmp", node.id, int(node.sign), int(node.value), int(node.bounds.lower), int(node.bounds.upper),
            tuple(snapshot(n, c) for c in node.propositions))


def snap_eval(snap, vals, fixed=None):
    """truth function of a snapshot on python ints: T(node) = [sign*sum T(children) >= value];
    a node whose id is in `fixed`, or whose own bounds are constant, takes that constant"""
    fixed = fixed or {}
    if snap[0] == "var":
        r = vals[snap[1]]
    else:
        _, nid, sign, value, lo, hi, ch = snap
        tot = sum(snap_eval(c, vals, fixed) for c in ch)
        r = int(sign * tot >= value)
        if lo == hi:
            r = lo
    if snap[1] in fixed and fixed[snap[1]] is not None:
        r = fixed[snap[1]]
    return r


def snap_ids(snap, acc=None):
    acc = {} if acc is None else acc
    acc.setdefault(snap[1], snap)
    if snap[0] == "cmp":
        for c in snap[6]:
            snap_ids(c, acc)
    return acc


def boxes(leaf_boxes, cap=4096):
    """all assignments of leaves within their boxes if small, else a corner+midpoint sample"""
    ids = sorted(leaf_boxes)
    rngs = []
    total = 1
    for k in ids:
        lo, hi = leaf_boxes[k]
        total *= (hi - lo + 1)
    if total <= cap:
        for k in ids:
            lo, hi = leaf_boxes[k]
            rngs.append(range(lo, hi + 1))
    else:
        for k in ids:
            lo, hi = leaf_boxes[k]
            rngs.append(sorted({lo, hi, (lo + hi) // 2, min(hi, max(lo, 0)), min(hi, max(lo, 1))}))
    for combo in itertools.product(*rngs):
        yield dict(zip(ids, combo))


def warm(m):
    """the same call-history prefix the harness issues (sx/plh.py::warm)"""
    for f in ("flatten", "errors", "to_text", "to_short", "_dependencies"):
        try:
            getattr(m, f)()
        except Exception:   # noqa
            pass
    try:
        m.variables
    except Exception:   # noqa
        pass


def nd_warm(P):
    for f in ("column_bounds", "row_bounds", "to_linalg"):
        try:
            getattr(P, f)()
        except Exception:    # noqa
            pass
    for a in ("A", "b", "A_max", "A_min"):
        try:
            getattr(P, a)
        except Exception:    # noqa
            pass


_STATE = []


def _containers(n):
    seen = set()
    for mod in (n.puan, n.pg, n.pnd, n.cc, getattr(n, "misc", None)):
        if mod is None:
            continue
        for name, obj in list(vars(mod).items()):
            if name.startswith("__"):
                continue
            if isinstance(obj, (dict, list, set)) and id(obj) not in seen:
                seen.add(id(obj))
                yield obj
            if isinstance(obj, type) and getattr(obj, "__module__", "").startswith("puan"):
                for an, attr in list(vars(obj).items()):
                    if an.startswith("__"):
                        continue
                    if isinstance(attr, (dict, list, set)) and id(attr) not in seen:
                        seen.add(id(attr))
                        yield attr


def reset_process_state():
    """same as sx/env.py::reset_process_state (M12), for the plain interpreter: process-wide containers of the repository's modules back to
    their import-time content, functools caches emptied: the next observation starts as in a fresh process"""
    n = ns()
    if not _STATE:
        _STATE.append(None)
        for c in _containers(n):
            _STATE.append((c, type(c)(c)))
    for e in _STATE[1:]:
        c, c0 = e
        try:
            if isinstance(c, list):
                c[:] = c0
            else:
                c.clear()
                c.update(c0)
        except Exception:   # noqa
            pass
    clear_all_caches()


def clear_all_caches():
    """same as sx/env.py::clear_all_caches, for the plain interpreter"""
    n = ns()
    for mod in (n.puan, n.pg, n.pnd, n.cc):
        for obj in list(vars(mod).values()):
            if isinstance(obj, type):
                for attr in list(vars(obj).values()):
                    f = getattr(attr, "fget", attr)
                    f = getattr(f, "__func__", f)
                    cc_ = getattr(f, "cache_clear", None)
                    if callable(cc_):
                        try:
                            cc_()
                        except Exception:   # noqa
                            pass


_TERM = {}


def terminates(key, fn, seconds=15):
    """Does fn() return within `seconds`?  Probed once per key in a forked child (a call stuck inside a compiled extension cannot be
    interrupted from Python, so the child is killed).  Used before calling the library's built-in solver in-process: on some small
    configurators it does not return (seen: StingyConfigurator(cc.Any('d','a'), All('c','b','e'), All('f','b','e')).select({}))."""
    import os
    import time
    if key in _TERM:
        return _TERM[key]
    pid = os.fork()
    if pid == 0:
        try:
            fn()
        except BaseException:   # noqa
            pass
        os._exit(0)
    t0 = time.time()
    ok = False
    while time.time() - t0 < seconds:
        done, _ = os.waitpid(pid, os.WNOHANG)
        if done:
            ok = True
            break
        time.sleep(0.02)
    if not ok:
        try:
            os.kill(pid, 9)
        except OSError:
            pass
        os.waitpid(pid, 0)
    _TERM[key] = ok
    return ok
