"""C05 replay: real negate()/Not on concrete parameters; oracle = brute force over the snapshot of the original"""
from sx import plspec
from . import common as C


def _observe_atom(n, spec, inputs):
    out = {"error": None}
    try:
        cls = plspec._item_class(n.puan) if spec["form"] == "subclass" else n.puan.variable
        leaf = "q" if spec["form"] == "str" else cls("q", bounds=(inputs["env"]["lo_q"], inputs["env"]["hi_q"]))
        neg = n.pg.Not(leaf)
        if spec["chain"] == 2:
            neg = n.pg.Not(neg)
        v = neg.evaluate(dict(inputs["vals"]))
        out["neg"] = [int(v.lower), int(v.upper)]
    except Exception as e:    # noqa
        out["error"] = "%s: %s" % (type(e).__name__, e)
    return out


def observe(spec, inputs):
    n = C.ns()
    if spec.get("part") == "atom":
        return _observe_atom(n, spec, inputs)
    env = inputs["env"]
    m0 = plspec.build(n, spec["model"], env)
    snap = C.snapshot(n, m0)
    m1 = plspec.build(n, spec["model"], env)
    out = {"snap": snap, "gen": bool(m0.generated_id), "mid": m0.id, "error": None}
    try:
        if spec.get("warm"):
            C.warm(m1)
        neg = n.pg.Not(m1) if spec["via"] == "Not" else m1.negate()
        if spec.get("chain", 1) == 2:
            out["midsnap"] = C.snapshot(n, neg)
            neg = n.pg.Not(neg) if spec["via"] == "Not" else neg.negate()
        out["negsnap"] = C.snapshot(n, neg)
        out["negid"] = neg.id
        v = neg.evaluate(dict(inputs["vals"]))
        out["neg"] = [int(v.lower), int(v.upper)]
    except Exception as e:    # noqa
        out["error"] = "%s: %s" % (type(e).__name__, e)
    return out


def _tup(x):
    return tuple(_tup(y) for y in x) if isinstance(x, (list, tuple)) else x


def _safe(snap, neg_parent=False):
    if snap[0] == "var":
        return True
    if neg_parent:
        return False
    return all(_safe(c, snap[2] == -1) for c in snap[6])


def judge(spec, inputs, out, ob):
    if out["error"] is not None:
        return True, "negate/evaluate raised on a validated model: " + out["error"]
    if spec.get("part") == "atom":
        holds = 1 if inputs["vals"]["q"] >= 1 else 0
        want = 1 - holds if spec["chain"] == 1 else holds
        if out["neg"] != [want, want]:
            return True, "%sNot(q) evaluates to %s at q=%d (box %s); All(q) evaluates to %d" % ("Not " if spec["chain"] == 2 else "", out["neg"], inputs["vals"]["q"], inputs["env"], holds)
        return False, ""
    snap = _tup(out["snap"])
    t = C.snap_eval(snap, inputs["vals"])
    bad = []
    want = 1 - t if spec.get("chain", 1) == 1 else t
    if out["neg"] != [want, want]:
        bad.append("original evaluates to %d but its %snegation evaluates to %s" % (t, "double " if spec.get("chain", 1) == 2 else "", out["neg"]))
    if not out["gen"] and out["negid"] != out["mid"]:
        bad.append("explicit id %r not kept (got %r)" % (out["mid"], out["negid"]))
    leaves = plspec.leaves(spec["model"])
    env = inputs["env"]
    allbool = all((plspec.P(env, lo), plspec.P(env, hi)) == (0, 1) for lo, hi in leaves.values())
    if allbool and _safe(snap) and not _safe(_tup(out["negsnap"])):
        bad.append("negation of a solver-safe model is not solver-safe")
    if allbool and out.get("midsnap") is not None and _safe(_tup(out["midsnap"])) and not _safe(_tup(out["negsnap"])):
        bad.append("the once-negated model is solver-safe but negating it again gives a model that is not")
    return bool(bad), "; ".join(bad) + " | model=%s inputs=%s" % (plspec.show(spec["model"]), inputs)
