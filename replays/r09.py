"""C09 replay: (frame) one real call, snapshot before/after; (cache) query configurator 1 then configurator 2 in one process and compare
configurator 2's polyhedron with the one it yields with an empty cache"""
import copy
import numpy
from sx import plspec, cfg
from . import common as C
from .r18 import _snap, _t



def _clear_caches(ns_):
    """empty the configurator-level caches if the current tree has any (lru_cache on the class, pinned tree); a no-op for per-instance caches"""
    for name in ("ge_polyhedron", "leafs"):
        f = ns_.cc.StingyConfigurator.__dict__.get(name)
        f = getattr(f, "fget", f)
        cc_ = getattr(f, "cache_clear", None)
        if cc_ is not None:
            cc_()

def _dummy(P, objs):
    return [(numpy.zeros(P.A.shape[1], dtype=int), 0, 6) for _ in objs]


def observe(spec, inputs):
    n = C.ns()
    out = {"error": None}
    env = inputs["env"]
    try:
        _clear_caches(n)
        _clear_caches(n)
        if spec["part"] == "cache":
            base = spec["model"]

            def boxed(tag):
                s = copy.deepcopy(base)

                def go(nd):
                    if nd["t"] == "var":
                        nd["lo"], nd["hi"] = "$lo_%s%s" % (nd["id"], tag), "$hi_%s%s" % (nd["id"], tag)
                    for c in nd.get("ch", []):
                        go(c)
                go(s)
                return s
            c1, c2 = plspec.build(n, boxed("1"), env), plspec.build(n, boxed("2"), env)
            P1 = c1.ge_polyhedron
            P2 = c2.ge_polyhedron
            got = [[int(v.bounds.lower), int(v.bounds.upper)] for v in P2.variables]
            _clear_caches(n)
            C.clear_all_caches()
            c2b = plspec.build(n, boxed("2"), env)
            P2f = c2b.ge_polyhedron
            fresh = [[int(v.bounds.lower), int(v.bounds.upper)] for v in P2f.variables]
            out["same"] = bool(got == fresh and numpy.asarray(P2).tolist() == numpy.asarray(P2f).tolist())
            out["got"], out["fresh"] = got, fresh
            return out
        if spec["part"] == "history":
            return _history(n, spec, out)
        if spec["part"] == "repeat":
            m = plspec.build(n, spec["model"], {})
            out["snap"] = C.snapshot(n, plspec.build(n, spec["model"], {}))
            f = getattr(m, spec["op"])

            def interp(x):
                return {l: (v if spec["form"] == "int" else (v, v)) for l, v in x.items()}
            if spec.get("samedict"):
                dct = interp(inputs["x1"])
                f(dct)
                dct.clear()
                dct.update(interp(inputs["x2"]))
                r = f(dct)
            else:
                f(interp(inputs["x1"]))
                r = f(interp(inputs["x2"]))
            r = r[m.id] if spec["op"] == "evaluate_propositions" else r
            out["r2"] = [int(r.lower), int(r.upper)]
            return out
        m = plspec.build(n, spec["model"], env)
        out["before"] = _snap(n, m)
        arg = {k: v for k, (p, v) in inputs.get("arg", {}).items() if p}
        op = spec["op"]
        try:
            if op == "evaluate":
                m.evaluate(arg)
            elif op == "evaluate_propositions":
                m.evaluate_propositions(arg)
            elif op == "assume":
                m.assume(arg)
            elif op == "reduce":
                m.reduce()
            elif op == "negate":
                m.negate()
            elif op == "errors":
                m.errors()
            elif op == "flatten":
                m.flatten()
            elif op == "to_json":
                m.to_json()
            elif op == "to_b64":
                m.to_b64()
            elif op == "to_text":
                m.to_text()
            elif op == "to_short":
                m.to_short()
            elif op == "to_ge_polyhedron":
                m.to_ge_polyhedron(active=True)
                m.to_ge_polyhedron(active=False)
            elif op == "solve":
                list(m.solve([{}], solver=_dummy))
            elif op == "select":
                list(m.select({cfg.items(spec["model"])[0]: 1}, solver=_dummy))
            elif op == "add":
                m.add(n.pg.Any("zz1", "zz2", variable="ZZ"))
            elif op == "default_prios":
                m.default_prios
            elif op == "leafs":
                m.leafs()
            elif op == "ge_polyhedron":
                m.ge_polyhedron
        except Exception as e:   # noqa
            out["raised"] = "%s: %s" % (type(e).__name__, e)
        out["after"] = _snap(n, m)
    except Exception as e:   # noqa
        out["error"] = "%s: %s" % (type(e).__name__, e)
    return out


def _obs(n, obj, leaves):
    o = {}
    if issubclass(obj.__class__, n.puan.variable):
        return {"var": [str(obj.id), int(obj.bounds.lower), int(obj.bounds.upper)]}
    o["repr"] = sorted(repr(x) for x in obj.flatten())
    o["bounds"] = sorted([str(x.id), int(x.bounds.lower), int(x.bounds.upper)] for x in obj.flatten())
    ev = obj.evaluate({l: lo for l, (lo, hi) in leaves.items()})
    o["evaluate"] = [int(ev.lower), int(ev.upper)]
    try:
        import contextlib, os
        with open(os.devnull, "w") as dn, contextlib.redirect_stderr(dn):
            saved = os.dup(2); os.dup2(dn.fileno(), 2)
            try:
                P = obj.to_ge_polyhedron(True)
            finally:
                os.dup2(saved, 2); os.close(saved)
        o["poly"] = [numpy.asarray(P).astype(int).tolist(), [str(v.id) for v in P.variables]]
    except BaseException as e:   # noqa  (pyo3 PanicException is a BaseException)
        o["poly"] = "raises %s" % type(e).__name__
    if isinstance(obj, n.cc.StingyConfigurator):
        P = obj.ge_polyhedron
        o["cfgpoly"] = [numpy.asarray(P).astype(int).tolist(), [str(v.id) for v in P.variables], [int(v) for v in P.default_prio_vector]]
        o["leafs"] = [str(v.id) for v in obj.leafs()]

        def _bs(res):
            return [[None if s_[0] is None else sorted([str(a_), int(b_)] for a_, b_ in s_[0].items()), int(s_[1]) if s_[1] is not None else None, int(s_[2])] for s_ in res]
        import copy as _copy
        probe = _copy.deepcopy(obj)
        if C.terminates(("r09", repr(sorted(repr(x) for x in obj.flatten()))), lambda: (list(probe.select({probe.leafs()[0].id: 1})), list(probe.select({probe.leafs()[-1].id: -1}, {})))):
            try:
                o["select_builtin"] = _bs(obj.select({obj.leafs()[0].id: 1}))
                o["select_builtin2"] = _bs(obj.select({obj.leafs()[-1].id: -1}, {}))
            except Exception as e_:    # noqa
                o["select_builtin"] = "raises %s" % type(e_).__name__
        else:
            o["select_builtin"] = "built-in solver did not return within the probe time"
        P = obj.ge_polyhedron
        o["cfgpoly_after_selects"] = [numpy.asarray(P).astype(int).tolist(), [str(v.id) for v in P.variables], [int(v) for v in P.default_prio_vector]]
    return o


def _der(n, obj, how, leaves):
    if how == "add":
        return obj.add(n.pg.Any("zz1", "zz2", variable="ZZ"))
    if how == "assume":
        l = sorted(leaves)[0]
        return obj.assume({l: leaves[l][1]})
    return obj.negate() if how == "negate" else obj.reduce()


def _history(n, spec, out):
    leaves = {k: (int(lo), int(hi)) for k, (lo, hi) in plspec.leaves(spec["model"]).items()}
    how = spec["derive"]
    # the two reference observations are each taken from the process state at import time (M12), so that what they leave behind in
    # process-wide tables cannot make reference and history agree by accident
    C.reset_process_state()
    cold = _obs(n, _der(n, plspec.build(n, spec["model"], {}), how, leaves), leaves)
    C.reset_process_state()
    fresh = _obs(n, plspec.build(n, spec["model"], {}), leaves)
    C.reset_process_state()
    m = plspec.build(n, spec["model"], {})
    _obs(n, m, leaves)
    m.evaluate_propositions({l: lo for l, (lo, hi) in leaves.items()})
    warm = _obs(n, _der(n, m, how, leaves), leaves)
    after = _obs(n, m, leaves)
    out["d1"] = [k for k in cold if cold[k] != warm.get(k)]
    out["d2"] = [k for k in fresh if fresh[k] != after.get(k)]
    return out


def judge(spec, inputs, out, ob):
    if out["error"] is not None:
        return True, "raised: " + out["error"]
    if spec["part"] == "repeat":
        t = C.snap_eval(_t(out["snap"]), inputs["x2"])
        if out["r2"] != [t, t]:
            return True, "%s(%s) after %s(%s) on the same object returned %s, the truth function gives %d | model=%s" % (
                spec["op"], inputs["x2"], spec["op"], inputs["x1"], out["r2"], t, plspec.show(spec["model"]))
        return False, ""
    if spec["part"] == "history":
        bad = []
        if out["d1"]:
            bad.append("the object derived by %s() answers differently when the original had been queried before (%s)" % (spec["derive"], out["d1"]))
        if out["d2"]:
            bad.append("the original answers differently from a fresh object after the history (%s)" % out["d2"])
        return bool(bad), "; ".join(bad) + " | model=%s" % plspec.show(spec["model"])
    if spec["part"] == "cache":
        if not out["same"]:
            return True, "second configurator's polyhedron depends on the first one having been queried: got column bounds %s, alone %s | env=%s" % (out["got"], out["fresh"], inputs["env"])
        return False, ""
    if _t(out["before"]) != _t(out["after"]):
        return True, "%s changed the object it was called on | model=%s inputs=%s" % (spec["op"], plspec.show(spec["model"]), inputs)
    return False, ""
