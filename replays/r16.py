"""C16 replay: real to_json -> json.dumps -> json.loads -> from_json on concrete parameters; oracle: snapshot truth function of the original"""
import json
import numpy
from sx import plspec
from . import common as C



def _clear_caches(ns_):
    """empty the configurator-level caches if the current tree has any (lru_cache on the class, pinned tree); a no-op for per-instance caches"""
    for name in ("ge_polyhedron", "leafs"):
        f = ns_.cc.StingyConfigurator.__dict__.get(name)
        f = getattr(f, "fget", f)
        cc_ = getattr(f, "cache_clear", None)
        if cc_ is not None:
            cc_()

def _tup(x):
    return tuple(_tup(y) for y in x) if isinstance(x, (list, tuple)) else x


def observe(spec, inputs):
    n = C.ns()
    env = inputs["env"]
    iscfg = spec["kind_"] == "cfg"
    out = {"error": None}
    try:
        m0 = plspec.build(n, spec["model"], env)
        out["snap"] = C.snapshot(n, m0)
        nodes0 = C.walk(n, m0)
        out["gen0"] = bool(m0.generated_id)
        out["exp0"] = sorted(str(k) for k, o in nodes0.items() if not issubclass(o[0].__class__, n.puan.variable) and not o[0].generated_id)
        out["leaves0"] = {str(k): [int(o[0].bounds.lower), int(o[0].bounds.upper)] for k, o in nodes0.items() if issubclass(o[0].__class__, n.puan.variable)}
        m1 = plspec.build(n, spec["model"], env)
        stage = "to_json"
        try:
            j = m1.to_json()
            stage = "dumps/loads"
            j2 = json.loads(json.dumps(j))
            out["json_stable"] = (j2 == json.loads(json.dumps(j2)))
            stage = "from_json"
            m2 = n.cc.StingyConfigurator.from_json(j2) if iscfg else n.pg.from_json(j2)
            stage = "evaluate"
            v = m2.evaluate(dict(inputs["vals"]))
            out["val"] = [int(v.lower), int(v.upper)]
            nodes2 = C.walk(n, m2)
            out["exp2"] = sorted(str(k) for k, o in nodes2.items() if not issubclass(o[0].__class__, n.puan.variable) and not o[0].generated_id)
            out["leaves2"] = {str(k): [int(o[0].bounds.lower), int(o[0].bounds.upper)] for k, o in nodes2.items() if issubclass(o[0].__class__, n.puan.variable)}
            out["top_id_key"] = "id" in j
            if iscfg:
                out["prios_equal"] = (m0.default_prios == m2.default_prios)
                out["d0"] = sorted((str(k), [str(v.id) for v in o[0].default]) for k, o in nodes0.items() if getattr(o[0], "default", None))
                out["d2"] = sorted((str(k), [str(v.id) for v in o[0].default]) for k, o in nodes2.items() if getattr(o[0], "default", None))
                _clear_caches(n)
                P0 = m0.ge_polyhedron
                _clear_caches(n)
                P2 = m2.ge_polyhedron
                out["poly_equal"] = bool(numpy.asarray(P0).tolist() == numpy.asarray(P2).tolist() and [v.id for v in P0.variables] == [v.id for v in P2.variables]
                                         and list(P0.default_prio_vector) == list(P2.default_prio_vector))
        except Exception as e:   # noqa
            out["error"] = "%s in %s: %s" % (type(e).__name__, stage, e)
    except Exception as e:   # noqa
        out["error"] = "build: %s: %s" % (type(e).__name__, e)
    return out


def judge(spec, inputs, out, ob):
    if out["error"] is not None:
        return True, "JSON round trip raised on a validated model: " + out["error"] + " | model=%s" % plspec.show(spec["model"])
    bad = []
    t = C.snap_eval(_tup(out["snap"]), inputs["vals"])
    if out["val"] != [t, t]:
        bad.append("round-tripped model evaluates to %s, original to %d" % (out["val"], t))
    if out["leaves0"] != out["leaves2"]:
        bad.append("leaves/bounds differ: %s vs %s" % (out["leaves0"], out["leaves2"]))
    if not set(out["exp0"]) <= set(out["exp2"]):
        bad.append("explicit ids lost: %s" % sorted(set(out["exp0"]) - set(out["exp2"])))
    if set(out["exp2"]) - set(out["exp0"]):
        bad.append("generated ids became explicit: %s" % sorted(set(out["exp2"]) - set(out["exp0"]))[:3])
    if out["top_id_key"] != (not out["gen0"]):
        bad.append("top-level id key present=%s but generated_id=%s" % (out["top_id_key"], out["gen0"]))
    if spec["kind_"] == "cfg":
        if not out["prios_equal"]:
            bad.append("default_prios differ")
        if out["d0"] != out["d2"]:
            bad.append("defaults differ: %s vs %s" % (out["d0"], out["d2"]))
        if not out["poly_equal"]:
            bad.append("polyhedron differs")
    return bool(bad), "; ".join(bad) + " | model=%s inputs=%s" % (plspec.show(spec["model"]), inputs)
