"""C12 replay: real int64 ge_polyhedron; oracle: the concrete point, and brute force over the box when it is small"""
import itertools
import numpy
from . import common as C


def _poly(n, spec, inputs):
    A = spec["A"]
    M = numpy.array([[inputs["b"][i]] + A[i] for i in range(len(A))], dtype=numpy.int64)
    first = n.puan.variable("0") if spec.get("first") == "plain01" else n.puan.variable(0, bounds=(1, 1))
    vs = [first] + [n.puan.variable("v%d" % j, bounds=(inputs["lo"][j], inputs["hi"][j])) for j in range(len(A[0]))]
    dt = spec.get("dtype")
    if dt == "astype-int16":
        return n.pnd.ge_polyhedron(M, variables=vs).astype(numpy.int16)
    if dt:
        return n.pnd.ge_polyhedron(M, variables=vs, dtype=getattr(numpy, dt))
    return n.pnd.ge_polyhedron(M, variables=vs)


def observe(spec, inputs):
    n = C.ns()
    out = {"error": None}
    try:
        P = _poly(n, spec, inputs)
        if spec.get("warm"):
            C.nd_warm(P)
        if spec["part"] == "tighten":
            tb = P.tighten_column_bounds()
            out["tb"] = [[int(v) for v in tb[0]], [int(v) for v in tb[1]]]
        else:
            if spec.get("after_tighten"):
                t1 = P.tighten_column_bounds()
                P.reducable_columns_approx()
                t2 = P.tighten_column_bounds()
                cb = P.column_bounds()
                out["tb1"] = [[int(v) for v in t1[0]], [int(v) for v in t1[1]]]
                out["tb2"] = [[int(v) for v in t2[0]], [int(v) for v in t2[1]]]
                out["cb"] = [[int(v) for v in cb[0]], [int(v) for v in cb[1]]]
            rb = P.row_bounds()
            out["rb"] = [[int(r[0]), int(r[1])] for r in rb]
            out["nrc"] = [int(v) for v in P.n_row_combinations]
    except Exception as e:   # noqa
        out["error"] = "%s: %s" % (type(e).__name__, e)
    return out


def judge(spec, inputs, out, ob):
    if out["error"] is not None:
        return True, "raised: " + out["error"]
    A, b, lo, hi, x = spec["A"], inputs["b"], inputs["lo"], inputs["hi"], inputs["x"]
    nr, nc = len(A), len(A[0])
    feas = all(sum(A[i][j] * x[j] for j in range(nc)) >= b[i] for i in range(nr))
    bad = []
    if spec["part"] == "tighten":
        lb, ub = out["tb"]
        if feas and any(not (lb[j] <= x[j] <= ub[j]) for j in range(nc)):
            bad.append("feasible in-box point %s lies outside the tightened bounds %s" % (x, out["tb"]))
        if feas and any(lb[j] > ub[j] for j in range(nc)):
            bad.append("crossed bounds %s although %s is a solution" % (out["tb"], x))
        # besides the given point: every point of the box when the box is small
        size = 1
        for j in range(nc):
            size *= (hi[j] - lo[j] + 1)
        if size <= 20000:
            anyfeas = False
            for p in itertools.product(*[range(lo[j], hi[j] + 1) for j in range(nc)]):
                if all(sum(A[i][j] * p[j] for j in range(nc)) >= b[i] for i in range(nr)):
                    anyfeas = True
                    if any(not (lb[j] <= p[j] <= ub[j]) for j in range(nc)):
                        bad.append("feasible in-box point %s lies outside the tightened bounds %s" % (list(p), out["tb"]))
                        break
            if anyfeas and any(lb[j] > ub[j] for j in range(nc)) and not bad:
                bad.append("crossed bounds %s although the system has in-box solutions" % (out["tb"],))
        if any(lb[j] < lo[j] or ub[j] > hi[j] for j in range(nc)):
            bad.append("tightened bounds %s wider than declared %s" % (out["tb"], [lo, hi]))
    else:
        for i in range(nr):
            elo = sum(A[i][j] * (lo[j] if A[i][j] > 0 else hi[j]) for j in range(nc)) - b[i]
            ehi = sum(A[i][j] * (hi[j] if A[i][j] > 0 else lo[j]) for j in range(nc)) - b[i]
            if out["rb"][i] != [elo, ehi]:
                bad.append("row %d bounds %s, exact range [%d,%d]" % (i, out["rb"][i], elo, ehi))
            cnt = 1
            for j in range(nc):
                if A[i][j] != 0:
                    cnt *= (hi[j] - lo[j] + 1)
            if out["nrc"][i] != cnt:
                bad.append("row %d combination count %d, enumeration gives %d" % (i, out["nrc"][i], cnt))
        if spec.get("after_tighten"):
            if out["cb"] != [lo, hi]:
                bad.append("column_bounds() after tighten_column_bounds() is %s, declared %s" % (out["cb"], [lo, hi]))
            if out["tb1"] != out["tb2"]:
                bad.append("tighten_column_bounds() is not stable across calls: %s then %s" % (out["tb1"], out["tb2"]))
    return bool(bad), "; ".join(bad) + " | A=%s inputs=%s" % (A, inputs)
