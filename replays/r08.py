"""C08 replay: real (assume+)reduce() on concrete parameters; oracle: snapshot truth function of the original with fixed ids"""
from sx import plspec
from . import common as C


def _tup(x):
    return tuple(_tup(y) for y in x) if isinstance(x, (list, tuple)) else x


def observe(spec, inputs):
    n = C.ns()
    env = inputs["env"]
    m0 = plspec.build(n, spec["model"], env)
    out = {"snap": C.snapshot(n, m0), "error": None}
    m1 = plspec.build(n, spec["model"], env)
    F = {k: C.form(n, spec.get("aform", "int"), o) for k, (p, o) in inputs["assume"].items() if p}
    try:
        if spec.get("warm"):
            C.warm(m1)
        base = m1.assume(dict(F)) if spec["assumed"] else m1
        red = base.reduce() if hasattr(base, "reduce") else base
        v = red.evaluate(dict(inputs["x"]))
        out["val"] = [int(v.lower), int(v.upper)]
        out["single"] = bool(issubclass(red.__class__, n.puan.variable))
        out["nodes"] = {nd.id: [int(nd.bounds.lower), int(nd.bounds.upper)] for nd in red.flatten()}
    except Exception as e:   # noqa
        out["error"] = "%s: %s" % (type(e).__name__, e)
    return out


def judge(spec, inputs, out, ob):
    if out["error"] is not None:
        return True, "reduce/evaluate raised: " + out["error"]
    snap = _tup(out["snap"])
    cids = set(plspec.explicit_ids(spec["model"]))
    fixed = {k: o for k, (p, o) in inputs["assume"].items() if p and k in cids}
    t = C.snap_eval(snap, inputs["x"], fixed)
    bad = []
    if out["val"] != [t, t]:
        bad.append("reduced model evaluates to %s, original (fixed variables at their constants) gives %d" % (out["val"], t))
    if not out["single"]:
        for nid, (lo, hi) in out["nodes"].items():
            if lo == hi:
                bad.append("reduced model still contains %s with constant bounds (%d,%d)" % (nid, lo, hi))
    return bool(bad), "; ".join(bad) + " | model=%s inputs=%s" % (plspec.show(spec["model"]), inputs)
