"""Plain-interpreter side: runs the *real, unpatched* code on concrete inputs.
Invoked with /venv/bin/python (no z3, no SX proxies, no shims).
  run.py --batch <PROP>   : JSON list of {"spec","inputs","ob"} on stdin -> JSON list on stdout
Each property has replays/rNN.py with
  observe(spec, inputs) -> outputs (JSON-able)         the real code's behaviour
  judge(spec, inputs, outputs, ob) -> (violated, msg)  independent concrete oracle (brute force)
"""
import importlib
import json
import os
import sys
import traceback

VERIF = os.path.dirname(os.path.dirname(os.path.abspath(__file__)))
if VERIF not in sys.path:
    sys.path.insert(1, VERIF)
sys.setrecursionlimit(10000)


def main():
    assert sys.argv[1] == "--batch"
    prop = sys.argv[2]
    assert "z3" not in sys.modules
    mod = importlib.import_module("replays.r%s" % prop[1:])
    items = json.load(sys.stdin)
    out = []
    real_stdout = sys.stdout
    sys.stdout = sys.stderr
    from replays import common as _C
    for it in items:
        try:
            _C.clear_all_caches()
            o = mod.observe(it["spec"], it["inputs"])
            if it.get("ob") is None and "predicted" in it:
                # translator validation: report the real outputs, and let the independent concrete oracle judge them as well
                try:
                    v, msg = mod.judge(it["spec"], it["inputs"], o, "validation")
                except Exception:   # noqa
                    v, msg = False, ""
                out.append({"outputs": o, "violated": bool(v), "msg": msg})
                continue
            v, msg = mod.judge(it["spec"], it["inputs"], o, it.get("ob"))
            out.append({"outputs": o, "violated": bool(v), "msg": msg})
        except Exception as e:   # noqa
            out.append({"error": "".join(traceback.format_exception(type(e), e, e.__traceback__))[-2000:]})
    sys.stdout = real_stdout
    json.dump(out, sys.stdout, default=str)


if __name__ == "__main__":
    main()
