"""Plain-interpreter side: runs the *real, unpatched* code on concrete inputs.
Invoked with /venv/bin/python (no z3, no SX proxies, no shims).
  run.py --batch <PROP>   : JSON list of {"spec","inputs","ob"} on stdin -> JSON list on stdout
Each property has replays/rNN.py with
  observe(spec, inputs) -> outputs (JSON-able)         the real code's behaviour
  judge(spec, inputs, outputs, ob) -> (violated, msg)  independent concrete oracle (brute force)
"""
import importlib
import json
import os
import sys
import traceback

VERIF = os.path.dirname(os.path.dirname(os.path.abspath(__file__)))
if VERIF not in sys.path:
    sys.path.insert(1, VERIF)
sys.setrecursionlimit(10000)


def _twins(inputs, limit=3):
    """copies of `inputs` in which one integer parameter of inputs["env"] equal to -1 is -2, or the reverse"""
    env = inputs.get("env") if isinstance(inputs, dict) else None
    out = []
    if isinstance(env, dict):
        for k, v in env.items():
            if type(v) is int and v in (-1, -2) and len(out) < limit:
                e2 = dict(env)
                e2[k] = -3 - v
                out.append(dict(inputs, env=e2))
    return out


def main():
    assert sys.argv[1] == "--batch"
    prop = sys.argv[2]
    assert "z3" not in sys.modules
    mod = importlib.import_module("replays.r%s" % prop[1:])
    items = json.load(sys.stdin)
    out = []
    real_stdout = sys.stdout
    sys.stdout = sys.stderr
    from replays import common as _C
    for it in items:
        try:
            _C.reset_process_state()
            for h in it.get("history") or []:
                # a recorded call history: the same observation on other inputs, earlier in this process, nothing reset in between
                try:
                    mod.observe(h["spec"], h["inputs"])
                except Exception:   # noqa
                    pass
            o = mod.observe(it["spec"], it["inputs"])
            if it.get("ob") is None and "predicted" in it:
                # translator validation: report the real outputs, and let the independent concrete oracle judge them as well
                try:
                    v, msg = mod.judge(it["spec"], it["inputs"], o, "validation")
                except Exception:   # noqa
                    v, msg = False, ""
                out.append({"outputs": o, "violated": bool(v), "msg": msg})
                continue
            v, msg = mod.judge(it["spec"], it["inputs"], o, it.get("ob"))
            out.append({"outputs": o, "violated": bool(v), "msg": msg})
        except Exception as e:   # noqa
            out.append({"error": "".join(traceback.format_exception(type(e), e, e.__traceback__))[-2000:]})
    # ---- second pass over the validation items: the same observations again, in groups, WITHOUT resetting anything between the members of
    # a group and in reversed order. Every answer is judged by the same concrete oracle; an answer that is right in a fresh process and wrong
    # after the library was used on look-alike inputs (shared memo tables, caches keyed by too little) is a reproduced violation; the group
    # members that ran before it are recorded as its call history, so the replay file reproduces it
    GROUP = int(os.environ.get("VERIF_HISTORY_GROUP", "12"))
    vidx = [i for i, it in enumerate(items) if it.get("ob") is None and "predicted" in it and not it.get("history") and "error" not in out[i]
            and not out[i].get("violated")]
    for g0 in range(0, len(vidx), GROUP):
        grp = list(reversed(vidx[g0:g0 + GROUP]))
        try:
            _C.reset_process_state()
        except Exception:   # noqa
            continue
        ran = []
        for pos, i in enumerate(grp):
            it = items[i]
            # look-alikes first: the same input with one parameter -1 exchanged for -2 or the reverse (CPython hashes both to -2, so
            # every table keyed by a hash or by hash-based equality sees them as the same key)
            for tw in _twins(it["inputs"]):
                try:
                    mod.observe(it["spec"], tw)
                    ran.append({"spec": it["spec"], "inputs": tw})
                except Exception:   # noqa
                    pass
            try:
                o2 = mod.observe(it["spec"], it["inputs"])
                v2, msg2 = mod.judge(it["spec"], it["inputs"], o2, "validation")
            except Exception:   # noqa
                continue
            if v2 and ran:
                out[i]["history_violation"] = {"outputs": o2, "msg": msg2, "history": list(ran)}
            ran.append({"spec": it["spec"], "inputs": it["inputs"]})
    sys.stdout = real_stdout
    json.dump(out, sys.stdout, default=str)


if __name__ == "__main__":
    main()
