"""C11 replay: real int64 reduction; oracle: the concrete point plus brute force over small boxes"""
import itertools
import math
import numpy
from . import common as C
from .r12 import _poly


def _n(v):
    v = float(v)
    return None if math.isnan(v) else int(v)


def observe(spec, inputs):
    n = C.ns()
    out = {"error": None}
    try:
        P = _poly(n, spec, inputs)
        if spec.get("warm"):
            C.nd_warm(P)
        if spec.get("warm") == "queries":
            P.tighten_column_bounds()
            P.reducable_columns_approx()
            P.reducable_rows()
            P.column_bounds()
        if spec["part"] == "rows":
            out["rr"] = [int(v) for v in P.reducable_rows()]
        elif spec["part"] == "cols":
            out["fc"] = [_n(v) for v in P.reducable_columns_approx()]
        else:
            rows, cols = P.reducable_rows_and_columns()
            R = P.reduce(rows_vector=rows, columns_vector=cols)
            out["rows"] = [int(v) for v in rows]
            out["cols"] = [_n(v) for v in cols]
            out["R"] = [[int(v) for v in r] for r in R.tolist()]
            out["Rshape"] = list(R.shape)
            out["Rvars"] = [v.id for v in R.variables]
            out["Rindex"] = [v.id for v in R.index]
    except Exception as e:   # noqa
        out["error"] = "%s: %s" % (type(e).__name__, e)
    return out


def judge(spec, inputs, out, ob):
    if out["error"] is not None:
        return True, "raised: " + out["error"]
    A, b, lo, hi, x = spec["A"], inputs["b"], inputs["lo"], inputs["hi"], inputs["x"]
    nr, nc = len(A), len(A[0])
    rowok = [sum(A[i][j] * x[j] for j in range(nc)) >= b[i] for i in range(nr)]
    feas = all(rowok)
    bad = []
    if spec["part"] == "rows":
        for i in range(nr):
            if out["rr"][i] and not rowok[i]:
                bad.append("row %d reported reducible but violated at in-box point %s" % (i, x))
    elif spec["part"] == "cols":
        for j in range(nc):
            if out["fc"][j] is not None and feas and x[j] != out["fc"][j]:
                bad.append("column %d reported forced to %s but solution %s has %d" % (j, out["fc"][j], x, x[j]))
    else:
        forced = {j: v for j, v in enumerate(out["cols"]) if v is not None}
        rem_c = [j for j in range(nc) if j not in forced]
        rem_r = [i for i in range(nr) if not out["rows"][i]]
        if out["Rshape"] != [len(rem_r), len(rem_c) + 1]:
            bad.append("reduced shape %s" % out["Rshape"])
        elif out["Rvars"] != [0] + ["v%d" % j for j in rem_c] or out["Rindex"] != rem_r:
            bad.append("reduced variables/index %s / %s do not describe the remaining columns %s / rows %s" % (out["Rvars"], out["Rindex"], rem_c, rem_r))
        else:
            R = out["R"]
            red = all(sum(R[ii][jj + 1] * x[j] for jj, j in enumerate(rem_c)) >= R[ii][0] for ii in range(len(rem_r)))
            atf = all(x[j] == f for j, f in forced.items())
            if feas and not (atf and red):
                bad.append("solution %s of the original is lost (forced=%s, reduced rows hold=%s)" % (x, forced, red))
            x2 = list(x)
            for j, f in forced.items():
                x2[j] = f
            feas2 = all(sum(A[i][j] * x2[j] for j in range(nc)) >= b[i] for i in range(nr))
            inb = all(lo[j] <= f <= hi[j] for j, f in forced.items())
            if red and not (feas2 and inb):
                bad.append("point %s solves the reduced system but its extension %s does not solve the original / leaves the box" % ([x[j] for j in rem_c], x2))
    # besides the given point: the whole box when it is small (exact comparison of solution sets)
    size = 1
    for j in range(nc):
        size *= (hi[j] - lo[j] + 1)
    if not bad and size <= 20000:
        sols = [p for p in itertools.product(*[range(lo[j], hi[j] + 1) for j in range(nc)])
                if all(sum(A[i][j] * p[j] for j in range(nc)) >= b[i] for i in range(nr))]
        if spec["part"] == "rows":
            for i in range(nr):
                if out["rr"][i]:
                    for p in itertools.product(*[range(lo[j], hi[j] + 1) for j in range(nc)]):
                        if sum(A[i][j] * p[j] for j in range(nc)) < b[i]:
                            bad.append("row %d reported reducible but violated at in-box point %s" % (i, list(p)))
                            break
        elif spec["part"] == "cols":
            for j in range(nc):
                if out["fc"][j] is not None and any(p[j] != out["fc"][j] for p in sols):
                    bad.append("column %d reported forced to %s but a solution has another value" % (j, out["fc"][j]))
        elif out.get("Rshape") == [len([i for i in range(nr) if not out["rows"][i]]), len([j for j in range(nc) if out["cols"][j] is None]) + 1]:
            forced = {j: v for j, v in enumerate(out["cols"]) if v is not None}
            rem_c = [j for j in range(nc) if j not in forced]
            R = out["R"]
            proj = set(tuple(p[j] for j in rem_c) for p in sols)
            if any(any(p[j] != f for j, f in forced.items()) for p in sols):
                bad.append("a solution of the original does not take the forced values %s" % forced)
            red = set(q for q in itertools.product(*[range(lo[j], hi[j] + 1) for j in rem_c])
                      if all(sum(R[ii][jj + 1] * q[jj] for jj in range(len(rem_c))) >= R[ii][0] for ii in range(len(R))))
            if red != proj:
                bad.append("reduced solution set (%d points) is not the projection of the original one (%d points)" % (len(red), len(proj)))
    return bool(bad), "; ".join(bad) + " | A=%s inputs=%s" % (A, inputs)
