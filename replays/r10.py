"""C10 replay: real errors() on the concrete model; oracle: well-definedness computed on the spec with python values"""
from sx import plspec, wd
from . import common as C

HASH_SPEC = {"t": "All", "id": "A", "ch": [
    {"t": "Any", "id": "B", "ch": [{"t": "var", "id": "x", "occ": 1, "lo": "$lo_x1", "hi": "$hi_x1"}, {"t": "var", "id": "a", "lo": 0, "hi": 1}]},
    {"t": "Any", "id": "C", "ch": [{"t": "var", "id": "x", "occ": 2, "lo": "$lo_x2", "hi": "$hi_x2"}, {"t": "var", "id": "b", "lo": 0, "hi": 1}]}]}


K_SPEC = {"t": "All", "id": "A", "ch": [
    {"t": "Any", "id": "B", "ch": [{"t": "AtLeast", "id": "K", "value": "$v_K1", "sign": "$s_K1", "ch": [{"t": "var", "id": "a"}, {"t": "var", "id": "b"}]}, {"t": "var", "id": "c"}]},
    {"t": "Any", "id": "C", "ch": [{"t": "AtLeast", "id": "K", "value": "$v_K2", "sign": "$s_K2", "ch": [{"t": "var", "id": "a"}, {"t": "var", "id": "b"}]}, {"t": "var", "id": "d"}]}]}


def _model(spec):
    if spec["part"] == "hash":
        return K_SPEC if spec["what"] == "atleast" else HASH_SPEC
    return spec["model"]


def observe(spec, inputs):
    n = C.ns()
    model = _model(spec)
    out = {"error": None}
    if spec["part"] == "requery":
        try:
            m = plspec.build(n, model, {})
            out["e1"] = [str(e) for e in m.errors()]
            m.flatten()
            m.variables
            try:
                m.assume(dict(inputs["assume"]))
            except Exception:   # noqa
                pass
            out["errors"] = [str(e) for e in m.errors()]
            out["wd2"] = bool(wd.welldefined_objects(lambda nd: issubclass(nd.__class__, n.puan.variable), m, lambda x: int(x), lambda a, b: a == b,
                                                     lambda xs: all(xs), True, False))
        except Exception as e:   # noqa
            out["error"] = "%s: %s" % (type(e).__name__, e)
        return out
    try:
        m = plspec.build(n, model, inputs["env"])
        out["errors"] = [str(e) for e in m.errors()]
    except RecursionError:
        out["error"] = "RecursionError"
    except Exception as e:   # noqa
        out["error"] = "%s: %s" % (type(e).__name__, e)
    return out


def judge(spec, inputs, out, ob):
    model = _model(spec)
    env = inputs["env"]
    if spec["part"] == "requery":
        if out["error"] is not None:
            return True, "raised: " + out["error"]
        if out["e1"] != []:
            return True, "errors() = %s on a well-defined model" % out["e1"]
        acc = out["errors"] == []
        if acc != out["wd2"]:
            return True, "after errors(), flatten(), assume(%s) on the same object: errors() = %s but the object is %swell-defined now | model=%s" % (
                inputs["assume"], out["errors"], "" if out["wd2"] else "not ", plspec.show(model))
        return False, ""
    WD = wd.welldefined(model, lambda x: plspec.P(env, x), lambda a, b: a == b, lambda xs: all(xs), True, False)
    try:
        n = C.ns()
        WD = WD and wd.welldefined_objects(lambda nd: issubclass(nd.__class__, n.puan.variable), plspec.build(n, model, env),
                                           lambda x: int(x), lambda a, b: a == b, lambda xs: all(xs), True, False)
    except RecursionError:
        WD = False
    if out["error"] is not None:
        return bool(WD), "raised %s on a well-defined model" % out["error"] if WD else "raised on an ill-defined model (acceptable)"
    acc = out["errors"] == []
    if acc and not WD:
        return True, "errors() == [] but the model is not well-defined | model=%s env=%s" % (plspec.show(model), env)
    if (not acc) and WD:
        return True, "errors() = %s but the model is well-defined | model=%s env=%s" % (out["errors"], plspec.show(model), env)
    return False, ""
