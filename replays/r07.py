"""C07 replay: real assume()+evaluate() vs evaluate() on the union, on concrete inputs; containment by the snapshot truth function"""
from sx import plspec
from . import common as C

FORMS = ["int", "tuple", "bounds"]


def _tup(x):
    return tuple(_tup(y) for y in x) if isinstance(x, (list, tuple)) else x


def _dicts(n, spec, inputs):
    leaves = plspec.leaves(spec["model"])
    F, R = {}, {}
    for k, (p, a, b) in inputs["assume"].items():
        if p:
            F[k] = C.form(n, spec["forms"][k], a, b)
    for l in leaves:
        if l in F:
            continue
        if l in spec["assumed"]:
            R[l] = C.form(n, FORMS[(len(l) + 1) % 3], inputs["x"][l])
        else:
            R[l] = C.form(n, spec["forms"].get(l, "int"), inputs["x"][l])
    return F, R


def observe(spec, inputs):
    n = C.ns()
    env = inputs["env"]
    m0 = plspec.build(n, spec["model"], env)
    out = {"snap": C.snapshot(n, m0), "error": None}
    m1 = plspec.build(n, spec["model"], env)
    m2 = plspec.build(n, spec["model"], env)
    F, R = _dicts(n, spec, inputs)
    try:
        if spec.get("warm"):
            C.warm(m1)
            C.warm(m2)
        a = m1.assume(dict(F))
        r1 = a.evaluate(dict(R))
        U = dict(R)
        U.update(F)
        r2 = m2.evaluate(U)
        out["r1"] = [int(r1.lower), int(r1.upper)]
        out["r2"] = [int(r2.lower), int(r2.upper)]
        out["assumed_nodes"] = {nd.id: [int(nd.bounds.lower), int(nd.bounds.upper)] for nd in a.flatten()}
    except Exception as e:   # noqa
        out["error"] = "%s: %s" % (type(e).__name__, e)
    return out


def judge(spec, inputs, out, ob):
    if out["error"] is not None:
        return True, "assume/evaluate raised: " + out["error"]
    bad = []
    if out["r1"] != out["r2"]:
        bad.append("assume(F).evaluate(R) = %s but evaluate(F u R) = %s" % (out["r1"], out["r2"]))
    snap = _tup(out["snap"])
    ids = C.snap_ids(snap)
    cids = set(plspec.explicit_ids(spec["model"]))
    fixed = {k: a for k, (p, a, b) in inputs["assume"].items() if p and k in cids}
    mentioned = {k for k, (p, a, b) in inputs["assume"].items() if p}
    for nid, (lo, hi) in out["assumed_nodes"].items():
        if nid in mentioned:
            continue
        if nid not in ids:
            bad.append("unknown id %s" % nid)
            continue
        t = C.snap_eval(ids[nid], inputs["x"], fixed)
        if not (lo <= t <= hi):
            bad.append("%s keeps bounds (%d,%d) but takes value %d under a completion consistent with the assumption" % (nid, lo, hi, t))
    return bool(bad), "; ".join(bad) + " | model=%s inputs=%s" % (plspec.show(spec["model"]), inputs)
