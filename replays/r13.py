"""C13 replay: real int64 ndint_compress; oracle: direct definitions on python ints"""
import itertools
import numpy
from . import common as C


def fibres(shape, axis, me=None):
    if len(shape) == 2 and axis is None:
        return [((i * shape[1] + j,), [(i, j)]) for i in range(shape[0]) for j in range(shape[1])]
    if len(shape) == 3 and me in ("min", "max"):
        return [((i, j), [(g, i, j) for g in range(shape[0])]) for i in range(shape[1]) for j in range(shape[2])]
    if len(shape) == 1:
        return [((j,), [(j,)]) for j in range(shape[0])]
    if len(shape) == 2:
        if axis == 0:
            return [((j,), [(i, j) for i in range(shape[0])]) for j in range(shape[1])]
        return [((i,), [(i, j) for j in range(shape[1])]) for i in range(shape[0])]
    return [((g, j), [(g, i, j) for i in range(shape[1])]) for g in range(shape[0]) for j in range(shape[2])]


def observe(spec, inputs):
    n = C.ns()
    out = {"error": None}
    try:
        base = numpy.array(inputs["arr"], dtype=numpy.int64)
        if spec.get("layout") == "T":
            base = numpy.ascontiguousarray(base.T).T
        X = n.pnd.integer_ndarray(base)
        if spec.get("prior") == "colswap":
            for j in range(base.shape[1]):
                Y = base.copy()
                Y[0, j], Y[1, j] = base[1, j], base[0, j]
                n.pnd.integer_ndarray(Y).ndint_compress(method=spec["method"], axis=spec["axis"])
        if spec.get("before"):
            X.ndint_compress(method=spec["before"], axis=spec["axis"])
        res = numpy.asarray(X.ndint_compress(method=spec["method"], axis=spec["axis"]))
        out["after"] = numpy.asarray(X).astype(object).tolist()
        out["base_after"] = numpy.asarray(base).astype(object).tolist()
        out["shape"] = list(res.shape)
        fb = fibres(tuple(spec["shape"]), spec["axis"], spec["method"])
        out["res"] = [int(res[o]) for o, _ in fb] if res.ndim == len(fb[0][0]) else None
    except Exception as e:   # noqa
        out["error"] = "%s: %s" % (type(e).__name__, e)
    return out


def judge(spec, inputs, out, ob):
    if out["error"] is not None:
        return True, "raised: " + out["error"]
    if out["res"] is None:
        return True, "output shape %s" % out["shape"]
    if out.get("after") is not None and (out["after"] != inputs["arr"] or out["base_after"] != inputs["arr"]):
        return True, "the call changed the caller's array: %s became %s | spec=%s" % (inputs["arr"], out["after"], {k: spec[k] for k in ("shape", "axis", "method")})
    a = numpy.array(inputs["arr"], dtype=object)
    shape, axis, me = tuple(spec["shape"]), spec["axis"], spec["method"]
    fb = fibres(shape, axis, me)
    w = dict(zip([o for o, _ in fb], out["res"]))
    cols = {o: [int(a[i]) for i in idxs] for o, idxs in fb}
    bad = []

    def last_nz(xs):
        e, rho = 0, -1
        for k, x in enumerate(xs):
            if x != 0:
                e, rho = x, k
        return e, rho
    if me in ("first", "last"):
        for o, xs in cols.items():
            e, _ = last_nz(xs if me == "last" else xs[::-1])
            if w[o] != e:
                bad.append("%s of %s is %d, got %d" % (me, xs, e, w[o]))
    elif me == "max":
        for o, xs in cols.items():
            if w[o] != max(xs):
                bad.append("max of %s got %d" % (xs, w[o]))
    elif me == "min":
        for o, xs in cols.items():
            nzs = [x for x in xs if x != 0]
            e = min(nzs) if nzs else 0
            if w[o] != e:
                bad.append("smallest non-zero of %s is %d, got %d" % (xs, e, w[o]))
    else:
        K = {o: last_nz(xs) for o, xs in cols.items()}
        key = {o: (K[o][1], abs(K[o][0])) for o in K}
        groups = {}
        for o in K:
            groups.setdefault(o[0] if len(o) > 1 else 0, []).append(o)
        for g, os_ in groups.items():
            if me in ("shadow", "prio"):
                for o in os_:
                    e = K[o][0]
                    if (e == 0) != (w[o] == 0) or (e > 0 and w[o] <= 0) or (e < 0 and w[o] >= 0):
                        bad.append("zero/sign not kept at %s: priority %d weight %d" % (o, e, w[o]))
                nz = [o for o in os_ if K[o][0] != 0]
                for a_, b_ in itertools.permutations(nz, 2):
                    if key[a_] == key[b_] and abs(w[a_]) != abs(w[b_]):
                        bad.append("equal priorities, different weights %s %s" % (a_, b_))
                    if key[a_] < key[b_] and abs(w[a_]) >= abs(w[b_]):
                        bad.append("order not preserved between %s and %s" % (a_, b_))
                if me == "shadow":
                    for k in nz:
                        lower = sum(abs(w[j]) for j in nz if key[j] < key[k])
                        if abs(w[k]) <= lower:
                            bad.append("weight %d at %s does not dominate the sum %d of all lower priorities" % (w[k], k, lower))
                else:
                    pos = sorted(set(abs(w[o]) for o in nz))
                    if pos != list(range(1, len(pos) + 1)):
                        bad.append("prio values %s are not a dense ranking" % pos)
            else:
                def skey(o):
                    e = K[o][0]
                    if e == 0:
                        return (0, 0, 0)
                    return (1, key[o][0], key[o][1]) if e > 0 else (-1, -key[o][0], -key[o][1])
                for a_, b_ in itertools.permutations(os_, 2):
                    if (skey(a_) < skey(b_)) != (w[a_] < w[b_]):
                        bad.append("rank order differs between %s and %s" % (a_, b_))
                u = sorted(set(w[o] for o in os_))
                if u != list(range(u[0], u[0] + len(u))) or u[0] not in (0, 1):
                    bad.append("rank values %s not dense" % u)
    return bool(bad), "; ".join(bad[:4]) + " | spec=%s arr=%s out=%s" % (spec, inputs["arr"], out["res"])
