"""C19 replay: real int64 arrays; oracle: plain integer arithmetic"""
import numpy
from . import common as C


def observe(spec, inputs):
    n = C.ns()
    out = {"error": None}
    try:
        M = numpy.array([[inputs["b"][i]] + inputs["A"][i] for i in range(spec["rows"])], dtype=numpy.int64).reshape(spec["rows"], spec["cols"] + 1)
        P = n.pnd.ge_polyhedron(M)
        pts = inputs["pts"]
        nd = spec["ndim"]
        arr = numpy.array(pts[0][0] if nd == 1 else (pts[0] if nd == 2 else pts), dtype=getattr(numpy, spec.get("pdtype") or "int64"))
        if spec.get("pclass"):
            arr = getattr(n.pnd, spec["pclass"])(arr)
        M = numpy.asarray(M)
        if spec.get("edit"):
            # inputs["A"], inputs["b"] hold the content AFTER the edit; start from a different content, call, then edit in place
            M0 = M.copy()
            M0[0, 0] = M[0, 0] + 7
            M0[spec["rows"] - 1, spec["cols"]] = M[spec["rows"] - 1, spec["cols"]] - 5
            P = n.pnd.ge_polyhedron(M0)
            for f_ in ("ineqs_satisfied", "separable", "ineq_separate_points"):
                getattr(P, f_)(arr)
            P.to_linalg()
            P[0, 0] = M[0, 0]
            P[spec["rows"] - 1, spec["cols"]] = M[spec["rows"] - 1, spec["cols"]]
        res = numpy.asarray(getattr(P, spec["fn"])(arr))
        out["res"] = res.astype(int).tolist()
        out["shape"] = list(res.shape)
    except Exception as e:   # noqa
        out["error"] = "%s: %s" % (type(e).__name__, e)
    return out


def judge(spec, inputs, out, ob):
    if out["error"] is not None:
        return True, "raised: " + out["error"]
    A, b, pts = inputs["A"], inputs["b"], inputs["pts"]
    r, c, nd = spec["rows"], spec["cols"], spec["ndim"]

    def rowok(i, p):
        return sum(A[i][j] * p[j] for j in range(c)) >= b[i]

    def sat(p):
        return all(rowok(i, p) for i in range(r))
    if spec["fn"] in ("ineqs_satisfied", "separable"):
        f = (lambda p: int(sat(p))) if spec["fn"] == "ineqs_satisfied" else (lambda p: int(not sat(p)))
        exp = f(pts[0][0]) if nd == 1 else ([f(p) for p in pts[0]] if nd == 2 else [[f(p) for p in g] for g in pts])
    else:
        g1 = lambda grp: [int(any(not rowok(i, p) for p in grp)) for i in range(r)]   # noqa
        exp = g1(pts[0][:1]) if nd == 1 else (g1(pts[0]) if nd == 2 else [g1(g) for g in pts])
    if out["res"] != exp:
        return True, "%s returned %s, A x >= b gives %s | inputs=%s" % (spec["fn"], out["res"], exp, inputs)
    return False, ""
