"""C14 replay: real configurator, real objective vector; oracle: lexicographic key from the spec on the two concrete configurations"""
import numpy
from sx import plspec, cfg
from . import common as C



def _clear_caches(ns_):
    """empty the configurator-level caches if the current tree has any (lru_cache on the class, pinned tree); a no-op for per-instance caches"""
    for name in ("ge_polyhedron", "leafs"):
        f = ns_.cc.StingyConfigurator.__dict__.get(name)
        f = getattr(f, "fget", f)
        cc_ = getattr(f, "cache_clear", None)
        if cc_ is not None:
            cc_()

def observe(spec, inputs):
    n = C.ns()
    out = {"error": None}
    try:
        _clear_caches(n)
        c = plspec.build(n, spec["model"], {})
        P = c.ge_polyhedron
        if spec.get("via") == "cfgselect-multi":
            got = []

            def rec(Pm, objs):
                got.append(numpy.asarray(objs))
                return [(None, 0, 4) for _ in got[-1]]
            first = {cfg.items(spec["model"])[0]: 1}
            list(c.select(dict(first), dict(inputs["prios"]), solver=rec, only_leafs=False))
            w = got[-1][1:2]
        elif spec.get("via") == "select":
            got = []

            def rec(Pm, objs):
                got.append(numpy.asarray(objs))
                return [(None, 0, 4) for _ in got[-1]]
            if spec.get("repeat"):
                list(P.select(dict(inputs["prios0"]), solver=rec))
            list(P.select(dict(inputs["prios"]), solver=rec))
            w = got[-1]
        else:
            w = P._vectors_from_prios([dict(inputs["prios"])])
        out["w"] = [int(v) for v in numpy.asarray(w)[0]]
        out["cols"] = [str(v.id) for v in P.A.variables]
        out["M"] = numpy.asarray(P).astype(int).tolist()
        d2 = []
        nodes = C.walk(n, c)
        for s, d, comp in cfg.defaulted(spec["model"]):
            for nid, objs in nodes.items():
                o = objs[0]
                if not issubclass(o.__class__, n.puan.variable) and getattr(o, "generated_id", False) and o.value == 1 and o.sign == 1 \
                        and sorted(x.id for x in o.propositions) == sorted(comp):
                    d2.append(str(nid))
        out["d2"] = d2
    except Exception as e:   # noqa
        out["error"] = "%s: %s" % (type(e).__name__, e)
    return out


def judge(spec, inputs, out, ob):
    if out["error"] is not None:
        return True, "raised: " + out["error"]
    cols, w, M = out["cols"], out["w"], out["M"]
    x, y, pr = inputs["x"], inputs["y"], inputs["prios"]

    def feas(v):
        return all(sum(a * b for a, b in zip(row[1:], v)) >= row[0] for row in M)
    if not (feas(x) and feas(y)):
        return False, "configurations not feasible"
    user = [k for k in pr if pr[k] != 0 and k in cols]
    mags = sorted(set(abs(pr[k]) for k in user), reverse=True)
    ci = {c: j for j, c in enumerate(cols)}

    def key(v):
        ks = [sum((1 if pr[k] > 0 else -1) * v[ci[k]] for k in user if abs(pr[k]) == mg) for mg in mags]
        ks.append(-sum(v[ci[c]] for c in cols if c in out["d2"] and c not in user))
        ks.append(-sum(v[ci[c]] for c in cols if c not in out["d2"] and c not in user))
        return ks
    kx, ky = key(x), key(y)
    wx, wy = sum(a * b for a, b in zip(w, x)), sum(a * b for a, b in zip(w, y))
    bad = []
    if kx > ky and wx <= wy:
        bad.append("configuration x ranks above y lexicographically (%s > %s) but objective gives %d <= %d" % (kx, ky, wx, wy))
    if kx == ky and wx != wy:
        bad.append("equal keys %s but objective values %d != %d" % (kx, wx, wy))
    return bool(bad), "; ".join(bad) + " | cols=%s w=%s prios=%s x=%s y=%s" % (cols, w, pr, x, y)
